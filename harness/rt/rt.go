// Package rt is the run-time half of the conformance harness for generated kessoku injectors.
//
// Instrumented providers call Enter (logs the Enter event with the symbolic argument terms, then parks the calling
// goroutine in a gate) and return what Enter tells them to (ok / fail).  A scheduler owns the gates: it waits for
// quiescence (every goroutine other than itself is parked in a gate or in generated code, decided by inspecting
// runtime.Stack, never by timing), then performs exactly one action: release one gated provider with a verdict, or
// cancel the caller's context.  All maximal action sequences are enumerated by a stateless depth-first search over the
// REAL compiled injector; every execution is written as one ndjson trace that TLC validates against InjectorReq.tla.
package rt

import (
	"bufio"
	"context"
	"encoding/json"
	"errors"
	"fmt"
	"math/rand"
	"os"
	"regexp"
	"runtime"
	"sort"
	"strconv"
	"strings"
	"sync"
	"sync/atomic"
	"time"
)

// ---------------------------------------------------------------------------------------------------------------
// events

type Parked struct {
	G     int    `json:"g"`
	State string `json:"state"`
	Line  int    `json:"line"`
	Fn    string `json:"fn"`
	Top   string `json:"top"`
}

type Event struct {
	Tr     int               `json:"tr"`
	Seq    int               `json:"seq"`
	Ev     string            `json:"ev"`
	Decl   string            `json:"decl,omitempty"`
	P      string            `json:"p,omitempty"`
	N      int               `json:"n,omitempty"`
	Args   []string          `json:"args,omitempty"`
	OK     *bool             `json:"ok,omitempty"`
	Term   string            `json:"term,omitempty"`
	Err    string            `json:"err,omitempty"`
	Class  string            `json:"errclass,omitempty"`
	Site   int               `json:"site,omitempty"`
	Gated  []string          `json:"gated,omitempty"`
	Parked []Parked          `json:"parked,omitempty"`
	Point  string            `json:"point,omitempty"`
	Path   []string          `json:"path,omitempty"`
	Mode   string            `json:"mode,omitempty"`
	Params map[string]string `json:"params,omitempty"`
	Msg    string            `json:"msg,omitempty"`
	Pre    bool              `json:"precancel,omitempty"`
	HasErr bool              `json:"haserr,omitempty"`
	Diverg bool              `json:"diverged,omitempty"`
}

func nn(s []string) []string {
	if s == nil {
		return []string{}
	}
	return s
}

func np(s []Parked) []Parked {
	if s == nil {
		return []Parked{}
	}
	return s
}

// wire renders an event with exactly the fields the trace specification reads for its kind.
func (ev Event) wire() map[string]any {
	m := map[string]any{"tr": ev.Tr, "seq": ev.Seq, "ev": ev.Ev}
	switch ev.Ev {
	case "Call":
		m["decl"], m["pre"], m["mode"], m["haserr"] = ev.Decl, ev.Pre, ev.Mode, ev.HasErr
	case "Enter":
		m["p"], m["n"], m["args"] = ev.P, ev.N, nn(ev.Args)
	case "Exit":
		m["p"], m["n"], m["ok"] = ev.P, ev.N, *ev.OK
	case "Return":
		m["term"], m["err"], m["cls"], m["site"], m["haserr"] = ev.Term, ev.Err, ev.Class, ev.Site, ev.HasErr
	case "Panic":
		m["msg"] = ev.Msg
	case "Quiesced":
		m["gated"], m["parked"], m["point"] = nn(ev.Gated), np(ev.Parked), ev.Point
	case "Final", "Hang":
		m["parked"] = np(ev.Parked)
	case "GRet":
		m["site"] = ev.Site
	}
	return m
}

type gate struct {
	key string // "P3" or "P3#2" for a repeated call
	p   string
	ch  chan bool
}

type exec struct {
	mu      sync.Mutex
	tr      int
	seq     int
	events  []Event
	gates   map[string]*gate
	ncall   map[string]int
	token   *int
	retSite int
	yield   uint64 // 0 = no perturbation
	ycount  uint64
}

var curp atomic.Pointer[exec]

type ctxKey struct{}

func (e *exec) log(ev Event) {
	ev.Tr = e.tr
	ev.Seq = e.seq
	e.seq++
	e.events = append(e.events, ev)
}

// Enter is called first thing by every instrumented provider.  It returns the verdict chosen by the scheduler.
func Enter(p string, args ...string) bool {
	e := curp.Load()
	if e == nil {
		// not inside an execution driven by the scheduler: package initialisation evaluates the arguments of the
		// kessoku.Inject declaration itself (e.g. kessoku.Value(P())), which is no call of the injector
		return true
	}
	e.mu.Lock()
	e.ncall[p]++
	n := e.ncall[p]
	key := p
	if n > 1 {
		key = p + "#" + strconv.Itoa(n)
	}
	g := &gate{key: key, p: p, ch: make(chan bool)}
	e.gates[key] = g
	e.log(Event{Ev: "Enter", P: p, N: n, Args: append([]string{}, args...)})
	e.mu.Unlock()

	ok := <-g.ch // parked here until the scheduler releases the gate

	e.mu.Lock()
	okc := ok
	e.log(Event{Ev: "Exit", P: p, N: n, OK: &okc})
	e.mu.Unlock()
	return ok
}

// Mark records the return site (source line of the generated file) the injector is leaving through.  Inserted by the
// harness into a copy of the generated file in front of every return statement; semantics-preserving.
func Mark(line int) {
	e := curp.Load()
	if e == nil {
		return
	}
	e.mu.Lock()
	if e.retSite == 0 {
		e.retSite = line
	}
	e.mu.Unlock()
}

// MarkG is the same for return statements inside goroutine bodies (logged as events; used for blame only).
func MarkG(line int) {
	e := curp.Load()
	if e == nil {
		return
	}
	e.mu.Lock()
	e.log(Event{Ev: "GRet", Site: line})
	e.mu.Unlock()
}

// Yield is inserted by the harness in front of every statement of the instrumented copy of the generated file.  It
// perturbs the schedule between two gates (which goroutine reaches its select or close first), seeded per execution,
// so that interleavings finer than provider entry/exit are sampled on the real code too.
func Yield() {
	e := curp.Load()
	if e == nil || e.yield == 0 {
		return
	}
	n := atomic.AddUint64(&e.ycount, 1)
	x := (n*2654435761 + e.yield) % 7
	for i := uint64(0); i < x%3; i++ {
		runtime.Gosched()
	}
}

// Term builds the symbolic result term of provider p, result index k.
func Term(p string, k int, args ...string) string {
	return p + "(" + strings.Join(args, ",") + ")#" + strconv.Itoa(k)
}

// Fld is the term of a struct field read.
func Fld(structTerm, field string) string { return "fld(" + structTerm + "," + field + ")" }

// ProvErr is the sentinel error of provider p.
type ProvErr struct{ P string }

func (e *ProvErr) Error() string { return "err:" + e.P }

func Err(p string) error { return &ProvErr{P: p} }

// CtxTerm is the symbolic term of a context handed to a provider: "ctx" iff it derives from the caller's context.
func CtxTerm(ctx context.Context) string {
	if ctx == nil {
		return "ctx:nil"
	}
	if tok, _ := ctx.Value(ctxKey{}).(*int); tok != nil && curp.Load() != nil && tok == curp.Load().token {
		return "ctx"
	}
	return "ctx:foreign"
}

// TermCtx is a context.Context VALUE produced by a provider (not the injector's own context): it carries a term like
// every other provided value.
type TermCtx struct {
	context.Context
	Term string
}

func (c TermCtx) GetTerm() string { return c.Term }

func MkCtx(term string) context.Context { return TermCtx{context.Background(), term} }

// Obj implements every generated interface (method GetTerm); used for interface-typed injector arguments.
type Obj struct{ Term string }

func (o Obj) GetTerm() string { return o.Term }

func TermOf(v any) string {
	if v == nil {
		return "nil"
	}
	if t, ok := v.(interface{ GetTerm() string }); ok {
		return t.GetTerm()
	}
	return fmt.Sprintf("?%T", v)
}

// ---------------------------------------------------------------------------------------------------------------
// stack inspection

var hdrRe = regexp.MustCompile(`^goroutine (\d+) \[([^\]]*)\]:$`)
var fileRe = regexp.MustCompile(`^\t(.*):(\d+)( \+0x[0-9a-f]+)?$`)

type ginfo struct {
	id      int
	state   string
	funcs   []string
	files   []string
	lines   []int
	created string
}

func dumpStacks() []ginfo {
	buf := make([]byte, 1<<16)
	for {
		n := runtime.Stack(buf, true)
		if n < len(buf) {
			buf = buf[:n]
			break
		}
		buf = make([]byte, 2*len(buf))
	}
	var out []ginfo
	var g *ginfo
	sc := bufio.NewScanner(strings.NewReader(string(buf)))
	sc.Buffer(make([]byte, 1<<16), 1<<22)
	for sc.Scan() {
		ln := sc.Text()
		if m := hdrRe.FindStringSubmatch(ln); m != nil {
			id, _ := strconv.Atoi(m[1])
			st := m[2]
			if i := strings.Index(st, ","); i >= 0 {
				st = st[:i]
			}
			out = append(out, ginfo{id: id, state: st})
			g = &out[len(out)-1]
			continue
		}
		if g == nil || ln == "" {
			continue
		}
		if strings.HasPrefix(ln, "created by ") {
			g.created = ln
			continue
		}
		if m := fileRe.FindStringSubmatch(ln); m != nil {
			l, _ := strconv.Atoi(m[2])
			if len(g.files) < len(g.funcs) {
				g.files = append(g.files, m[1])
				g.lines = append(g.lines, l)
			}
			continue
		}
		g.funcs = append(g.funcs, ln)
	}
	return out
}

var blockedStates = map[string]bool{
	"chan receive": true, "select": true, "sync.WaitGroup.Wait": true,
	"chan receive (nil chan)": true, "select (no cases)": true, "chan send": true, "chan send (nil chan)": true,
}

// quiesce polls until every goroutine other than the caller (and those in ignore) is blocked.  It returns the
// goroutines parked in generated code (not in a gate) — gates are known from the exec's own table.
func quiesce(e *exec, genFile string, ignore map[int]bool, self string) ([]Parked, bool) {
	deadline := time.Now().Add(20 * time.Second) // only to turn a broken driver into exit 2, never a verdict
	for spin := 0; ; spin++ {
		gs := dumpStacks()
		busy := false
		var parked []Parked
		gatedSeen := 0
		for i, g := range gs {
			if i == 0 || ignore[g.id] { // goroutine 0 of the dump is the caller (the scheduler)
				continue
			}
			if !blockedStates[g.state] {
				busy = true
				break
			}
			inGate := false
			for _, f := range g.funcs {
				if strings.Contains(f, "/rt.Enter(") || strings.HasPrefix(f, "rt.Enter(") {
					inGate = true
				}
			}
			if inGate {
				gatedSeen++
				continue
			}
			// parked outside a gate: report the innermost frame that lies in the generated file, if any
			pk := Parked{G: g.id, State: g.state}
			if len(g.funcs) > 0 {
				pk.Top = g.funcs[0]
				if k := strings.LastIndex(pk.Top, "("); k > 0 {
					pk.Top = pk.Top[:k]
				}
			}
			for j, f := range g.files {
				if strings.HasSuffix(f, genFile) {
					pk.Line = g.lines[j]
					pk.Fn = g.funcs[j]
					if k := strings.LastIndex(pk.Fn, "("); k > 0 {
						pk.Fn = pk.Fn[:k]
					}
					break
				}
			}
			if pk.Line == 0 {
				// launcher goroutine of the driver waiting for nothing we know: treat by name
				isLauncher := false
				for _, f := range g.funcs {
					if strings.Contains(f, self) {
						isLauncher = true
					}
				}
				if isLauncher {
					busy = true // the launcher has no blocking point of its own: it is between two steps
					break
				}
				pk.Fn = "?" + strings.Join(g.funcs, "<")
			}
			parked = append(parked, pk)
		}
		if !busy {
			e.mu.Lock()
			ng := len(e.gates)
			e.mu.Unlock()
			if gatedSeen == ng {
				sort.Slice(parked, func(i, j int) bool {
					if parked[i].Line != parked[j].Line {
						return parked[i].Line < parked[j].Line
					}
					return parked[i].G < parked[j].G
				})
				return parked, true
			}
		}
		if time.Now().After(deadline) {
			return nil, false
		}
		if spin < 50 {
			runtime.Gosched()
		} else {
			time.Sleep(20 * time.Microsecond)
		}
	}
}

// quiesceAll waits until every goroutine but the caller is blocked and marks all of them as leftovers to ignore.
func quiesceAll() {
	deadline := time.Now().Add(20 * time.Second)
	for {
		gs := dumpStacks()
		busy := false
		for i, g := range gs {
			if i == 0 || leaked[g.id] {
				continue
			}
			if !blockedStates[g.state] {
				busy = true
			}
		}
		if !busy {
			for i, g := range gs {
				if i != 0 {
					leaked[g.id] = true
				}
			}
			return
		}
		if time.Now().After(deadline) {
			return
		}
		runtime.Gosched()
	}
}

// ---------------------------------------------------------------------------------------------------------------
// driver

type Config struct {
	Decl     string
	GenFile  string          // base name of the generated file, e.g. "k_band.go"
	Fallible map[string]bool // provider id -> may fail
	HasErr   bool            // injector has an error result
	HasCtx   bool            // injector takes a context
	Params   map[string]string
	Call     func(ctx context.Context) (term string, err error)
}

type result struct {
	term     string
	err      error
	panicked any
}

type runOut struct {
	events   []Event
	path     []string
	options  [][]string
	diverged bool
	dead     bool
}

func classify(err error, provs map[string]bool) string {
	if err == nil {
		return "nil"
	}
	var pe *ProvErr
	if errors.As(err, &pe) {
		return "prov:" + pe.P
	}
	if errors.Is(err, context.Canceled) {
		return "ctx:canceled"
	}
	if errors.Is(err, context.DeadlineExceeded) {
		return "ctx:deadline"
	}
	return "other"
}

var leaked = map[int]bool{}
var yieldSeed uint64

// runOne executes the injector once, following prefix and then choosing by pick.
func runOne(cfg *Config, tr int, mode string, prefix []string, pick func(opts []string) string) runOut {
	tok := new(int)
	e := &exec{tr: tr, gates: map[string]*gate{}, ncall: map[string]int{}, token: tok}
	if yieldSeed != 0 {
		e.yield = yieldSeed + uint64(tr)*7919
	}
	curp.Store(e)
	base, cancel := context.WithCancel(context.Background())
	ctx := context.WithValue(base, ctxKey{}, tok)
	defer cancel()

	allowFail := strings.Contains(mode, "fail")
	allowCancel := strings.Contains(mode, "cancel") && cfg.HasCtx

	var out runOut
	step := 0
	choose := func(opts []string) string {
		var c string
		if step < len(prefix) {
			c = prefix[step]
			found := false
			for _, o := range opts {
				if o == c {
					found = true
				}
			}
			if !found {
				out.diverged = true
				c = pick(opts)
			}
		} else {
			c = pick(opts)
		}
		out.path = append(out.path, c)
		out.options = append(out.options, opts)
		step++
		return c
	}

	cancelled := false
	// choice 0: start, or cancel before the call
	opts := []string{"start"}
	if allowCancel {
		opts = append(opts, "precancel")
	}
	c0 := choose(opts)
	if c0 == "precancel" {
		cancel()
		cancelled = true
	}
	e.mu.Lock()
	e.log(Event{Ev: "Call", Decl: cfg.Decl, Params: cfg.Params, Pre: cancelled, Mode: mode, HasErr: cfg.HasErr})
	e.mu.Unlock()

	done := make(chan result, 1)
	go launchInjector(cfg, ctx, done)

	var res *result
	returned := false
	for {
		parked, ok := quiesce(e, cfg.GenFile, leaked, "rt.launchInjector")
		if !ok {
			out.dead = true
			break
		}
		if !returned {
			select {
			case r := <-done:
				res = &r
				returned = true
				e.mu.Lock()
				if r.panicked != nil {
					e.log(Event{Ev: "Panic", Msg: fmt.Sprint(r.panicked)})
				} else {
					e.log(Event{Ev: "Return", Term: r.term, Err: errText(r.err), Class: classify(r.err, cfg.Fallible), Site: e.retSite, HasErr: cfg.HasErr})
				}
				e.mu.Unlock()
			default:
			}
		}
		e.mu.Lock()
		var gated []string
		for k := range e.gates {
			gated = append(gated, k)
		}
		sort.Strings(gated)
		point := "running"
		if returned {
			point = "after-return"
		}
		e.log(Event{Ev: "Quiesced", Gated: gated, Parked: parked, Point: point})
		e.mu.Unlock()

		if returned {
			// drain: providers return (assumption of C07/C08); no further caller action
			if len(gated) == 0 {
				e.mu.Lock()
				e.log(Event{Ev: "Final", Parked: parked})
				e.mu.Unlock()
				for _, p := range parked {
					leaked[p.G] = true
				}
				break
			}
			release(e, gated[0], true)
			continue
		}
		var o []string
		for _, g := range gated {
			o = append(o, "ok:"+g)
		}
		if allowFail {
			for _, g := range gated {
				if cfg.Fallible[e.gates[g].p] {
					o = append(o, "fail:"+g)
				}
			}
		}
		if allowCancel && !cancelled {
			o = append(o, "cancel")
		}
		if len(o) == 0 {
			// quiescent, nothing gated, injector has not returned: it is blocked forever
			e.mu.Lock()
			e.log(Event{Ev: "Hang", Parked: parked, Msg: "quiescent with no provider running and the injector not returned"})
			e.mu.Unlock()
			for _, p := range parked {
				leaked[p.G] = true
			}
			for _, g := range dumpStacks() {
				// the launcher goroutine is stuck inside the injector: ignore it from now on
				for _, f := range g.funcs {
					if strings.Contains(f, "rt.launchInjector") {
						leaked[g.id] = true
					}
				}
			}
			break
		}
		c := choose(o)
		switch {
		case c == "cancel":
			e.mu.Lock()
			e.log(Event{Ev: "Cancel"})
			e.mu.Unlock()
			cancel()
			cancelled = true
		case strings.HasPrefix(c, "ok:"):
			release(e, c[3:], true)
		case strings.HasPrefix(c, "fail:"):
			release(e, c[5:], false)
		}
	}
	_ = res
	e.mu.Lock()
	out.events = append([]Event{}, e.events...)
	e.mu.Unlock()
	// cleanup, after all observations: let whatever still waits on the caller's context go, wait until the process is
	// quiet again and ignore whatever is then still parked (by goroutine id) in later executions
	cancel()
	if !out.dead {
		quiesceAll()
	}
	return out
}

func errText(err error) string {
	if err == nil {
		return ""
	}
	return err.Error()
}

func release(e *exec, key string, ok bool) {
	e.mu.Lock()
	g := e.gates[key]
	delete(e.gates, key)
	e.mu.Unlock()
	g.ch <- ok
}

func launchInjector(cfg *Config, ctx context.Context, done chan result) {
	var r result
	defer func() {
		if p := recover(); p != nil {
			r.panicked = p
		}
		done <- r
	}()
	r.term, r.err = cfg.Call(ctx)
}

// MainMulti drives one of several injectors of a package, selected by VERIF_DECL.
func MainMulti(cfgs map[string]Config) {
	d := os.Getenv("VERIF_DECL")
	cfg, ok := cfgs[d]
	if !ok {
		if len(cfgs) == 1 {
			for _, c := range cfgs {
				Main(c)
				return
			}
		}
		fmt.Fprintf(os.Stderr, "rt: no injector configuration %q\n", d)
		os.Exit(2)
	}
	Main(cfg)
}

// Main is the entry point of a generated driver.  Environment:
//
//	VERIF_OUT     ndjson trace file (append)
//	VERIF_MODES   comma list out of none,fail,cancel,failcancel (default all)
//	VERIF_MAXRUNS cap of executions per mode (DFS is exhaustive below it, seeded random sampling above)
//	VERIF_SEED    seed for sampling
//	VERIF_PATH    replay exactly this comma-separated path (mode failcancel) and exit
func Main(cfg Config) {
	outPath := os.Getenv("VERIF_OUT")
	if outPath == "" {
		outPath = "/dev/stdout"
	}
	f, err := os.OpenFile(outPath, os.O_CREATE|os.O_WRONLY|os.O_APPEND, 0o644)
	if err != nil {
		fmt.Fprintln(os.Stderr, "rt: cannot open output:", err)
		os.Exit(2)
	}
	w := bufio.NewWriter(f)
	enc := json.NewEncoder(w)
	maxRuns := 300
	if s := os.Getenv("VERIF_MAXRUNS"); s != "" {
		maxRuns, _ = strconv.Atoi(s)
	}
	seed := int64(1)
	if s := os.Getenv("VERIF_SEED"); s != "" {
		seed, _ = strconv.ParseInt(s, 10, 64)
	}
	rng := rand.New(rand.NewSource(seed))
	if os.Getenv("VERIF_YIELD") != "" {
		yieldSeed = uint64(seed)*1000003 + 17
	}
	modes := []string{"none", "fail", "cancel", "failcancel"}
	if s := os.Getenv("VERIF_MODES"); s != "" {
		modes = strings.Split(s, ",")
	}
	tr := 0
	emit := func(o runOut, mode string, exhaustive bool) {
		for _, ev := range o.events {
			_ = enc.Encode(ev.wire())
		}
		_ = enc.Encode(map[string]any{"tr": o.events[0].Tr, "seq": len(o.events), "ev": "End", "path": o.path, "mode": mode, "diverged": o.diverged})
		w.Flush()
	}
	first := func(opts []string) string { return opts[0] }
	if p := os.Getenv("VERIF_PATH"); p != "" {
		reps := 1
		if s := os.Getenv("VERIF_REPS"); s != "" {
			reps, _ = strconv.Atoi(s)
		}
		for i := 0; i < reps; i++ {
			o := runOne(&cfg, i, "failcancel", strings.Split(p, ","), first)
			if o.dead {
				fmt.Fprintln(os.Stderr, "rt: driver could not reach quiescence")
				os.Exit(2)
			}
			emit(o, "failcancel", false)
		}
		return
	}
	summary := map[string]any{}
	// wall-clock budget of the whole walk (executions that end in a detected hang are slow): each mode gets its share,
	// a mode that runs out of it is reported as not exhaustive
	budget := 600.0
	if s := os.Getenv("VERIF_BUDGET_S"); s != "" {
		if v, err := strconv.ParseFloat(s, 64); err == nil {
			budget = v
		}
	}
	walkStart := time.Now()
	for mi, mode := range modes {
		modeDeadline := walkStart.Add(time.Duration(budget * float64(mi+1) / float64(len(modes)) * float64(time.Second)))
		runs := 0
		exhaustive := true
		seen := map[string]bool{}
		var dfs func(prefix []string)
		dfs = func(prefix []string) {
			if runs >= maxRuns || time.Now().After(modeDeadline) {
				exhaustive = false
				return
			}
			o := runOne(&cfg, tr, mode, prefix, first)
			tr++
			runs++
			if o.dead {
				w.Flush()
				fmt.Fprintln(os.Stderr, "rt: driver could not reach quiescence; path", o.path)
				os.Exit(2)
			}
			key := strings.Join(o.path, ",")
			if !seen[key] {
				seen[key] = true
				emit(o, mode, true)
			}
			if o.diverged {
				return
			}
			for i := len(prefix); i < len(o.path); i++ {
				for _, alt := range o.options[i] {
					if alt == o.path[i] {
						continue
					}
					np := append(append([]string{}, o.path[:i]...), alt)
					dfs(np)
				}
			}
		}
		dfs(nil)
		sampled := 0
		if !exhaustive {
			// seeded random sampling of further maximal paths
			for i := 0; i < maxRuns && !time.Now().After(modeDeadline); i++ {
				o := runOne(&cfg, tr, mode, nil, func(opts []string) string { return opts[rng.Intn(len(opts))] })
				tr++
				if o.dead {
					w.Flush()
					fmt.Fprintln(os.Stderr, "rt: driver could not reach quiescence; path", o.path)
					os.Exit(2)
				}
				key := strings.Join(o.path, ",")
				if !seen[key] {
					seen[key] = true
					sampled++
					emit(o, mode, false)
				}
			}
		}
		summary[mode] = map[string]any{"runs": runs, "distinct_paths": len(seen), "exhaustive": exhaustive, "sampled": sampled}
	}
	w.Flush()
	f.Close()
	sb, _ := json.Marshal(map[string]any{"decl": cfg.Decl, "modes": summary, "gomaxprocs": runtime.GOMAXPROCS(0), "executions": tr})
	_ = os.WriteFile(outPath+".summary", sb, 0o644)
}
