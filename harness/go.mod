module verifharness

go 1.24.0
