// scopes: read a user package directory containing generated *_band.go files and print, as ndjson, the identifiers the
// generated files declare (events File / Declare consumed by spec/NamesTrace.tla).
package main

import (
	"encoding/json"
	"fmt"
	"go/ast"
	"go/parser"
	"go/token"
	"os"
	"path"
	"path/filepath"
	"sort"
	"strconv"
	"strings"
)

var enc = json.NewEncoder(os.Stdout)

func emit(m map[string]any) { _ = enc.Encode(m) }

func main() {
	dir := os.Args[1]
	fset := token.NewFileSet()
	ents, _ := os.ReadDir(dir)
	var gen []string
	pkglevel := map[string]bool{}
	files := map[string]*ast.File{}
	for _, e := range ents {
		n := e.Name()
		if !strings.HasSuffix(n, ".go") || strings.HasSuffix(n, "_test.go") {
			continue
		}
		f, err := parser.ParseFile(fset, filepath.Join(dir, n), nil, 0)
		if err != nil {
			fmt.Fprintln(os.Stderr, err)
			if strings.HasSuffix(n, "_band.go") {
				os.Exit(3)
			}
			continue
		}
		files[n] = f
		if strings.HasSuffix(n, "_band.go") {
			gen = append(gen, n)
			continue
		}
		for _, d := range f.Decls {
			switch v := d.(type) {
			case *ast.FuncDecl:
				if v.Recv == nil {
					pkglevel[v.Name.Name] = true
				}
			case *ast.GenDecl:
				for _, sp := range v.Specs {
					switch s := sp.(type) {
					case *ast.TypeSpec:
						pkglevel[s.Name.Name] = true
					case *ast.ValueSpec:
						for _, id := range s.Names {
							if id.Name != "_" {
								pkglevel[id.Name] = true
							}
						}
					}
				}
			}
		}
	}
	sort.Strings(gen)
	for _, n := range gen {
		f := files[n]
		// functions declared by OTHER generated files of the package are package level for this one
		pl := []string{}
		for k := range pkglevel {
			pl = append(pl, k)
		}
		for _, m := range gen {
			if m == n {
				continue
			}
			for _, d := range files[m].Decls {
				if fd, ok := d.(*ast.FuncDecl); ok {
					pl = append(pl, fd.Name.Name)
				}
			}
		}
		sort.Strings(pl)
		emit(map[string]any{"ev": "File", "file": n, "pkglevel": pl})
		for _, im := range f.Imports {
			p, _ := strconv.Unquote(im.Path.Value)
			name := path.Base(p)
			if im.Name != nil {
				name = im.Name.Name
			}
			emit(map[string]any{"ev": "Declare", "file": n, "func": "", "space": n, "kind": "import", "name": name})
		}
		for _, d := range f.Decls {
			fd, ok := d.(*ast.FuncDecl)
			if !ok || fd.Body == nil {
				continue
			}
			space := n + ":" + fd.Name.Name
			declare := func(kind, name string) {
				if name == "_" {
					return
				}
				emit(map[string]any{"ev": "Declare", "file": n, "func": fd.Name.Name, "space": space, "kind": kind, "name": name})
			}
			top := map[string]bool{}
			if fd.Type.Params != nil {
				for _, fl := range fd.Type.Params.List {
					for _, id := range fl.Names {
						declare("param", id.Name)
						top[id.Name] = true
					}
				}
			}
			var walkBlock func(list []ast.Stmt, level string, isFuncTop bool)
			var walkStmt func(s ast.Stmt, level string, isFuncTop bool)
			walkExprForLits := func(e ast.Node) {
				ast.Inspect(e, func(x ast.Node) bool {
					if fl, ok := x.(*ast.FuncLit); ok {
						walkBlock(fl.Body.List, "top", false)
						return false
					}
					return true
				})
			}
			walkStmt = func(s ast.Stmt, level string, isFuncTop bool) {
				switch v := s.(type) {
				case *ast.DeclStmt:
					gd, ok := v.Decl.(*ast.GenDecl)
					if !ok {
						return
					}
					for _, sp := range gd.Specs {
						vs, ok := sp.(*ast.ValueSpec)
						if !ok {
							continue
						}
						for i, id := range vs.Names {
							kind := "var"
							if level != "top" {
								kind = "nested"
							} else if len(vs.Values) > i && strings.HasPrefix(exprString(vs.Values[i]), "make(chan") {
								kind = "chan"
							} else if vs.Type != nil && exprString(vs.Type) == "error" {
								kind = "errvar"
							}
							declare(kind, id.Name)
							if isFuncTop && level == "top" {
								top[id.Name] = true
							}
						}
					}
				case *ast.AssignStmt:
					if v.Tok == token.DEFINE {
						for _, lh := range v.Lhs {
							id, ok := lh.(*ast.Ident)
							if !ok {
								continue
							}
							if isFuncTop && level == "top" && top[id.Name] {
								continue // := re-uses a variable of the same scope
							}
							kind := "define"
							if level != "top" {
								kind = "nested"
							}
							declare(kind, id.Name)
							if isFuncTop && level == "top" {
								top[id.Name] = true
							}
						}
					}
					for _, r := range v.Rhs {
						walkExprForLits(r)
					}
				case *ast.ExprStmt:
					walkExprForLits(v.X)
				case *ast.GoStmt:
					walkExprForLits(v.Call)
				case *ast.IfStmt:
					if v.Init != nil {
						walkStmt(v.Init, "nested", false)
					}
					walkBlock(v.Body.List, "nested", false)
					if v.Else != nil {
						walkStmt(v.Else, "nested", false)
					}
				case *ast.BlockStmt:
					walkBlock(v.List, "nested", false)
				case *ast.ForStmt:
					if v.Init != nil {
						walkStmt(v.Init, "nested", false)
					}
					walkBlock(v.Body.List, "nested", false)
				case *ast.RangeStmt:
					if v.Tok == token.DEFINE {
						for _, e := range []ast.Expr{v.Key, v.Value} {
							if id, ok := e.(*ast.Ident); ok && id != nil {
								declare("nested", id.Name)
							}
						}
					}
					walkBlock(v.Body.List, "nested", false)
				case *ast.SelectStmt:
					for _, c := range v.Body.List {
						cc := c.(*ast.CommClause)
						walkBlock(cc.Body, "nested", false)
					}
				case *ast.SwitchStmt:
					for _, c := range v.Body.List {
						walkBlock(c.(*ast.CaseClause).Body, "nested", false)
					}
				}
			}
			walkBlock = func(list []ast.Stmt, level string, isFuncTop bool) {
				for _, s := range list {
					walkStmt(s, level, isFuncTop)
				}
			}
			emit(map[string]any{"ev": "Func", "file": n, "func": fd.Name.Name})
			walkBlock(fd.Body.List, "top", true)
		}
	}
}

func exprString(e ast.Expr) string {
	var b strings.Builder
	ast.Inspect(e, func(n ast.Node) bool {
		switch v := n.(type) {
		case *ast.Ident:
			b.WriteString(v.Name)
		case *ast.CallExpr:
			if id, ok := v.Fun.(*ast.Ident); ok {
				b.WriteString(id.Name + "(")
				for _, a := range v.Args {
					if _, ok := a.(*ast.ChanType); ok {
						b.WriteString("chan")
					}
				}
				return false
			}
		}
		return true
	})
	return b.String()
}
