// drivergen: given a scratch package directory containing decl.json, k.go and the generated k_band.go, write
//   - main.go      the driver (rt.Main + a closure calling the generated injector with symbolic arguments)
//   - k_band.go    replaced by a copy in which every return statement is preceded, on the same line, by a call that
//                  records the return site (line numbers are preserved; the original is kept as k_band.go.orig)
//   - sig.json     the generated function's signature as written (parameter/result type expressions)
package main

import (
	"encoding/json"
	"fmt"
	"go/ast"
	"go/parser"
	"go/token"
	"go/types"
	"os"
	"path/filepath"
	"sort"
	"strings"
)

type Decl struct {
	ID       string `json:"id"`
	Injector string `json:"injector"`
	Ret      string `json:"ret"`
	Types    map[string]struct {
		Form string `json:"form"`
	} `json:"types"`
	Providers []struct {
		ID       string `json:"id"`
		Kind     string `json:"kind"`
		Fallible bool   `json:"fallible"`
	} `json:"providers"`
}

func die(code int, f string, a ...any) {
	fmt.Fprintf(os.Stderr, "drivergen: "+f+"\n", a...)
	os.Exit(code)
}

func loadDecls(dir string) []Decl {
	var ds []Decl
	if b, err := os.ReadFile(filepath.Join(dir, "decls.json")); err == nil {
		if err := json.Unmarshal(b, &ds); err != nil {
			die(2, "%v", err)
		}
		return ds
	}
	var d Decl
	b, err := os.ReadFile(filepath.Join(dir, "decl.json"))
	if err != nil {
		die(2, "%v", err)
	}
	if err := json.Unmarshal(b, &d); err != nil {
		die(2, "%v", err)
	}
	return []Decl{d}
}

func main() {
	if len(os.Args) < 2 {
		die(2, "usage: drivergen <pkgdir> [genfile]")
	}
	dir := os.Args[1]
	gen := "k_band.go"
	if len(os.Args) > 2 {
		gen = os.Args[2]
	}
	decls := loadDecls(dir)
	genPath := filepath.Join(dir, gen)
	src, err := os.ReadFile(genPath)
	if err != nil {
		die(2, "%v", err)
	}
	fset := token.NewFileSet()
	f, err := parser.ParseFile(fset, genPath, src, 0)
	if err != nil {
		die(3, "generated file does not parse: %v", err)
	}
	funcs := map[string]*ast.FuncDecl{}
	nfuncs := 0
	for _, dc := range f.Decls {
		if fd, ok := dc.(*ast.FuncDecl); ok {
			nfuncs++
			funcs[fd.Name.Name] = fd
		}
	}
	type ins struct {
		off  int
		text string
	}
	var inss []ins
	var cfgs []string
	sigs := map[string]any{}
	for _, d := range decls {
		fn := funcs[d.Injector]
		if fn == nil {
			die(3, "generated file has no function %s", d.Injector)
		}
		var params, results []string
		if fn.Type.Params != nil {
			for _, fl := range fn.Type.Params.List {
				n := len(fl.Names)
				if n == 0 {
					n = 1
				}
				for i := 0; i < n; i++ {
					params = append(params, types.ExprString(fl.Type))
				}
			}
		}
		if fn.Type.Results != nil {
			for _, fl := range fn.Type.Results.List {
				n := len(fl.Names)
				if n == 0 {
					n = 1
				}
				for i := 0; i < n; i++ {
					results = append(results, types.ExprString(fl.Type))
				}
			}
		}
		sigs[d.ID] = map[string]any{"name": fn.Name.Name, "params": params, "results": results, "nfuncs": nfuncs}
		skipBlock := map[*ast.BlockStmt]bool{}
		var walk func(n ast.Node, inLit bool)
		walk = func(n ast.Node, inLit bool) {
			ast.Inspect(n, func(x ast.Node) bool {
				switch v := x.(type) {
				case *ast.FuncLit:
					if v != n {
						walk(v.Body, true)
						return false
					}
				case *ast.SelectStmt:
					skipBlock[v.Body] = true
				case *ast.SwitchStmt:
					skipBlock[v.Body] = true
				case *ast.TypeSwitchStmt:
					skipBlock[v.Body] = true
				case *ast.BlockStmt:
					if skipBlock[v] {
						return true
					}
					for _, st := range v.List {
						switch st.(type) {
						case *ast.DeclStmt, *ast.LabeledStmt:
							continue
						}
						inss = append(inss, ins{fset.Position(st.Pos()).Offset, "verif_y(); "})
					}
				case *ast.CaseClause:
					for _, st := range v.Body {
						if _, ok := st.(*ast.DeclStmt); ok {
							continue
						}
						inss = append(inss, ins{fset.Position(st.Pos()).Offset, "verif_y(); "})
					}
				case *ast.CommClause:
					for _, st := range v.Body {
						if _, ok := st.(*ast.DeclStmt); ok {
							continue
						}
						inss = append(inss, ins{fset.Position(st.Pos()).Offset, "verif_y(); "})
					}
				case *ast.ReturnStmt:
					line := fset.Position(v.Pos()).Line
					name := "verif_mark"
					if inLit {
						name = "verif_markg"
					}
					inss = append(inss, ins{fset.Position(v.Pos()).Offset, fmt.Sprintf("%s(%d); ", name, line)})
				}
				return true
			})
		}
		if fn.Body != nil {
			walk(fn.Body, false)
		}
		hasErr := len(results) > 0 && results[len(results)-1] == "error"
		nval := len(results)
		if hasErr {
			nval--
		}
		if nval != 1 {
			die(3, "generated function %s has %d non-error results", d.Injector, nval)
		}
		hasCtx := false
		var args []string
		for _, p := range params {
			if strings.HasSuffix(p, ".Context") {
				hasCtx = true
				args = append(args, "ctx")
				continue
			}
			name := strings.TrimPrefix(p, "*")
			ptr := strings.HasPrefix(p, "*")
			ty, ok := d.Types[name]
			if !ok {
				die(3, "parameter type %s of %s is not a type of the declaration", p, d.Injector)
			}
			term := fmt.Sprintf("%q", "arg:"+name)
			switch {
			case ty.Form == "iface" && !ptr:
				args = append(args, "rt.Obj{Term: "+term+"}")
			case ty.Form == "ptr" && ptr, ty.Form == "val" && !ptr:
				args = append(args, "mk_"+name+"("+term+")")
			case ty.Form == "ptr" && !ptr:
				args = append(args, "*mk_"+name+"("+term+")")
			case ty.Form == "val" && ptr:
				args = append(args, "func() *"+name+" { v := mk_"+name+"("+term+"); return &v }()")
			default:
				die(3, "cannot build an argument of type %s", p)
			}
		}
		var fall []string
		for _, p := range d.Providers {
			if p.Fallible {
				fall = append(fall, fmt.Sprintf("%q: true", p.ID))
			}
		}
		call := fmt.Sprintf("%s(%s)", d.Injector, strings.Join(args, ", "))
		var body string
		if hasErr {
			body = "r, err := " + call + "\n\t\t\t\treturn rt.TermOf(r), err"
		} else {
			body = "r := " + call + "\n\t\t\t\treturn rt.TermOf(r), nil"
		}
		cfgs = append(cfgs, fmt.Sprintf(`		%q: {
			Decl: %q, GenFile: %q, HasErr: %v, HasCtx: %v,
			Fallible: map[string]bool{%s},
			Call: func(ctx context.Context) (string, error) {
				_ = ctx
				%s
			},
		},`, d.ID, d.ID, gen, hasErr, hasCtx, strings.Join(fall, ", "), body))
	}
	if len(decls) == 1 {
		sg, _ := json.Marshal(sigs[decls[0].ID])
		_ = os.WriteFile(filepath.Join(dir, "sig.json"), sg, 0o644)
	} else {
		sg, _ := json.Marshal(sigs)
		_ = os.WriteFile(filepath.Join(dir, "sigs.json"), sg, 0o644)
	}
	sort.Slice(inss, func(i, j int) bool { return inss[i].off > inss[j].off })
	out := string(src)
	for _, in := range inss {
		out = out[:in.off] + in.text + out[in.off:]
	}
	_ = os.WriteFile(genPath+".orig", src, 0o644)
	if err := os.WriteFile(genPath, []byte(out), 0o644); err != nil {
		die(2, "%v", err)
	}
	mainSrc := fmt.Sprintf(`// Code generated by drivergen (verification harness). DO NOT EDIT.
package main

import (
	"context"

	"scratch/rt"
)

var verif_mark = rt.Mark
var verif_markg = rt.MarkG
var verif_y = rt.Yield

func main() {
	rt.MainMulti(map[string]rt.Config{
%s
	})
}
`, strings.Join(cfgs, "\n"))
	if err := os.WriteFile(filepath.Join(dir, "main.go"), []byte(mainSrc), 0o644); err != nil {
		die(2, "%v", err)
	}
}
