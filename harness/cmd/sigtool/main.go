// sigtool: print, as JSON, the top-level functions of a Go file: name, parameter names and types, result types.
// Type expressions are printed as written, with package qualifiers replaced by the import path they denote
// (so `context0.Context` with `import context0 "context"` prints as `context.Context`).
package main

import (
	"encoding/json"
	"fmt"
	"go/ast"
	"go/parser"
	"go/token"
	"go/types"
	"os"
	"path"
	"strconv"
)

type Fn struct {
	Name    string     `json:"name"`
	Params  [][]string `json:"params"`
	Results []string   `json:"results"`
}

func main() {
	fset := token.NewFileSet()
	f, err := parser.ParseFile(fset, os.Args[1], nil, 0)
	if err != nil {
		fmt.Fprintln(os.Stderr, err)
		os.Exit(3)
	}
	alias := map[string]string{}
	for _, im := range f.Imports {
		p, _ := strconv.Unquote(im.Path.Value)
		name := path.Base(p)
		if im.Name != nil {
			name = im.Name.Name
		}
		alias[name] = p
	}
	norm := func(e ast.Expr) string {
		// rewrite qualifiers on a copy
		var rw func(x ast.Expr) ast.Expr
		rw = func(x ast.Expr) ast.Expr {
			switch v := x.(type) {
			case *ast.SelectorExpr:
				if id, ok := v.X.(*ast.Ident); ok {
					if p, ok := alias[id.Name]; ok {
						return &ast.SelectorExpr{X: ast.NewIdent(p), Sel: v.Sel}
					}
				}
				return v
			case *ast.StarExpr:
				return &ast.StarExpr{X: rw(v.X)}
			case *ast.ArrayType:
				return &ast.ArrayType{Len: v.Len, Elt: rw(v.Elt)}
			case *ast.MapType:
				return &ast.MapType{Key: rw(v.Key), Value: rw(v.Value)}
			case *ast.ChanType:
				return &ast.ChanType{Dir: v.Dir, Value: rw(v.Value)}
			}
			return x
		}
		return types.ExprString(rw(e))
	}
	out := []Fn{}
	for _, d := range f.Decls {
		fd, ok := d.(*ast.FuncDecl)
		if !ok || fd.Recv != nil {
			continue
		}
		fn := Fn{Name: fd.Name.Name, Params: [][]string{}, Results: []string{}}
		if fd.Type.Params != nil {
			for _, fl := range fd.Type.Params.List {
				if len(fl.Names) == 0 {
					fn.Params = append(fn.Params, []string{"", norm(fl.Type)})
				}
				for _, n := range fl.Names {
					fn.Params = append(fn.Params, []string{n.Name, norm(fl.Type)})
				}
			}
		}
		if fd.Type.Results != nil {
			for _, fl := range fd.Type.Results.List {
				k := len(fl.Names)
				if k == 0 {
					k = 1
				}
				for i := 0; i < k; i++ {
					fn.Results = append(fn.Results, norm(fl.Type))
				}
			}
		}
		out = append(out, fn)
	}
	b, _ := json.Marshal(out)
	os.Stdout.Write(b)
}
