// extract: parse a generated *_band.go (go/ast only) into
//   - the program IR consumed by spec/Injector.tla (threads x instructions), refusing — never silently dropping —
//     any statement shape it does not recognise (the program is then marked unmodelled and only the black-box path
//     decides it), and
//   - a site map: source line -> descriptor of every return statement and every blocking statement, used to build
//     blame signatures from real executions (return site marks, parked goroutine lines).
//
// usage: extract <genfile> <injector> <decl.json>   (JSON on stdout)
package main

import (
	"encoding/json"
	"fmt"
	"go/ast"
	"go/parser"
	"go/token"
	"go/types"
	"os"
	"regexp"
	"strings"
)

type Instr struct {
	Op    string   `json:"op"`
	Line  int      `json:"line"`
	Chans []string `json:"chans"`  // wait, close
	Ctx   bool     `json:"ctx"`    // wait: ctx-aware select
	OnCtx string   `json:"onctx"`  // wait: what the ctx branch returns: "err:ctx" (error only) | "zero,ctx" | ""
	P     string   `json:"p"`      // call: provider id
	Args  []string `json:"args"`   // call
	Rets  []string `json:"rets"`   // call ("_" for discarded)
	Fall  bool     `json:"fall"`   // call: has an error result
	ErrCk string   `json:"errck"`  // call: "" (unchecked) | "ret" (returns the error) | "ignore"
	Src   string   `json:"src"`    // field
	Field string   `json:"field"`  // field
	Dst   string   `json:"dst"`    // field
	Chk   bool     `json:"chk"`    // egwait: error checked and returned
	V     string   `json:"v"`      // ret: returned variable
	RLine int      `json:"rline"`  // line of the return statement this instruction may leave through (0 = none)
}

type Program struct {
	Decl       string            `json:"decl"`
	Func       string            `json:"func"`
	Params     [][]string        `json:"params"` // [name, type expr]
	Results    []string          `json:"results"`
	HasErr     bool              `json:"haserr"`
	Vars       []string          `json:"vars"`
	VarTypes   [][]string        `json:"vartypes"` // [name, type expression] of the var block
	Chans      []string          `json:"chans"`
	EgForm     string            `json:"egform"` // "" (no errgroup) | "withctx" | "plain"
	EgParent   string            `json:"egparent"`
	Threads    [][]Instr         `json:"threads"` // thread 1 = the injector's own goroutine
	Unmodelled []string          `json:"unmodelled"`
	Sites      map[string]string `json:"sites"` // line -> descriptor
}

var fset = token.NewFileSet()
var prog Program
var egName = "eg"
var ctxName = "ctx"

func line(n ast.Node) int { return fset.Position(n.Pos()).Line }

func refuse(n ast.Node, why string) {
	prog.Unmodelled = append(prog.Unmodelled, fmt.Sprintf("line %d: %s", line(n), why))
}

func exprStr(e ast.Expr) string { return types.ExprString(e) }

var provRe = regexp.MustCompile(`\bProvide\((\w+)\)`)
var valueRe = regexp.MustCompile(`Value\(mk_\w+\("(\w+)\(\)#0"\)\)`)
var valueCallRe = regexp.MustCompile(`Value\((\w+)\(\)\)`)

func providerID(e ast.Expr) string {
	s := exprStr(e)
	if m := provRe.FindStringSubmatch(s); m != nil {
		return m[1]
	}
	if m := valueRe.FindStringSubmatch(s); m != nil {
		return m[1]
	}
	if m := valueCallRe.FindStringSubmatch(s); m != nil {
		return m[1]
	}
	return ""
}

func isRecv(e ast.Expr) (string, bool) {
	if u, ok := e.(*ast.UnaryExpr); ok && u.Op == token.ARROW {
		return exprStr(u.X), true
	}
	return "", false
}

func isDoneRecv(e ast.Expr) bool {
	s, ok := isRecv(e)
	return ok && strings.HasSuffix(s, ".Done()")
}

// isDerivedDone: the receive is on the Done channel of the errgroup's derived context
func isDerivedDone(e ast.Expr) bool {
	s, ok := isRecv(e)
	return ok && s == ctxName+".Done()"
}

func normResult(e ast.Expr) string {
	s := exprStr(e)
	switch {
	case s == "nil":
		return "nil"
	case s == "zero":
		return "zero"
	case strings.HasSuffix(s, ".Err()"):
		return "ctx.Err()"
	case strings.HasPrefix(s, "err"):
		return "err"
	default:
		if _, ok := e.(*ast.Ident); ok {
			return "v"
		}
		return "expr"
	}
}

func retDesc(r *ast.ReturnStmt) string {
	var parts []string
	for _, e := range r.Results {
		parts = append(parts, normResult(e))
	}
	return "return(" + strings.Join(parts, ",") + ")"
}

// site descriptors for every return / blocking statement, by a generic walk (works on unrecognised shapes too)
func siteWalk(body *ast.BlockStmt) {
	var walk func(n ast.Node, thread string, ctxs []string)
	walk = func(n ast.Node, thread string, ctxs []string) {
		if n == nil {
			return
		}
		cx := "top"
		if len(ctxs) > 0 {
			cx = ctxs[len(ctxs)-1]
		}
		switch v := n.(type) {
		case *ast.FuncLit:
			walk(v.Body, "go", nil)
			return
		case *ast.ReturnStmt:
			prog.Sites[fmt.Sprint(line(v))] = thread + ":" + cx + ":" + retDesc(v)
			return
		case *ast.SelectStmt:
			kinds := []string{}
			for _, c := range v.Body.List {
				cc := c.(*ast.CommClause)
				k := "default"
				if cc.Comm != nil {
					if es, ok := cc.Comm.(*ast.ExprStmt); ok {
						if isDoneRecv(es.X) {
							k = "ctx"
						} else if _, ok := isRecv(es.X); ok {
							k = "ch"
						} else {
							k = "other"
						}
					} else {
						k = "other"
					}
				}
				kinds = append(kinds, k)
				nc := "select-" + k
				for _, s := range cc.Body {
					walk(s, thread, append(ctxs, nc))
				}
			}
			prog.Sites[fmt.Sprint(line(v))] = thread + ":select(" + strings.Join(kinds, "|") + ")"
			return
		case *ast.IfStmt:
			nc := "if"
			if v.Init != nil && strings.Contains(exprStrStmt(v.Init), ".Wait()") {
				nc = "egwait-err"
				prog.Sites[fmt.Sprint(line(v))] = thread + ":egwait"
			} else if strings.Contains(exprStr(v.Cond), "!= nil") {
				nc = "if-err"
			}
			if v.Init != nil {
				walk(v.Init, thread, ctxs)
			}
			walk(v.Body, thread, append(ctxs, nc))
			if v.Else != nil {
				walk(v.Else, thread, append(ctxs, "else"))
			}
			return
		case *ast.ExprStmt:
			if _, ok := isRecv(v.X); ok {
				if isDoneRecv(v.X) {
					prog.Sites[fmt.Sprint(line(v))] = thread + ":recv(ctx)"
				} else {
					prog.Sites[fmt.Sprint(line(v))] = thread + ":recv(ch)"
				}
				return
			}
			if strings.HasSuffix(exprStr(v.X), ".Wait()") {
				prog.Sites[fmt.Sprint(line(v))] = thread + ":egwait"
			}
		case *ast.AssignStmt:
			for _, r := range v.Rhs {
				if strings.HasSuffix(exprStr(r), ".Wait()") {
					prog.Sites[fmt.Sprint(line(v))] = thread + ":egwait"
				}
			}
		}
		// generic descent
		switch v := n.(type) {
		case *ast.BlockStmt:
			for _, s := range v.List {
				walk(s, thread, ctxs)
			}
		case *ast.RangeStmt:
			walk(v.Body, thread, ctxs)
		case *ast.ForStmt:
			walk(v.Body, thread, ctxs)
		case *ast.ExprStmt:
			ast.Inspect(v.X, func(x ast.Node) bool {
				if fl, ok := x.(*ast.FuncLit); ok {
					walk(fl, thread, ctxs)
					return false
				}
				return true
			})
		case *ast.GoStmt:
			ast.Inspect(v.Call, func(x ast.Node) bool {
				if fl, ok := x.(*ast.FuncLit); ok {
					walk(fl, thread, ctxs)
					return false
				}
				return true
			})
		case *ast.LabeledStmt:
			walk(v.Stmt, thread, ctxs)
		case *ast.CaseClause:
			for _, s := range v.Body {
				walk(s, thread, ctxs)
			}
		case *ast.SwitchStmt:
			walk(v.Body, thread, ctxs)
		}
	}
	walk(body, "main", nil)
}

func exprStrStmt(s ast.Stmt) string {
	if a, ok := s.(*ast.AssignStmt); ok {
		var p []string
		for _, r := range a.Rhs {
			p = append(p, exprStr(r))
		}
		return strings.Join(p, ",")
	}
	return ""
}

// ---- recognisers for the IR ------------------------------------------------------------------------------------

func retLine(stmts []ast.Stmt) int {
	for _, s := range stmts {
		if r, ok := s.(*ast.ReturnStmt); ok {
			return line(r)
		}
	}
	return 0
}

func retKind(stmts []ast.Stmt) (string, bool) {
	// "var zero T; return zero, X" | "return X" | "return nil, X"
	var r *ast.ReturnStmt
	switch len(stmts) {
	case 1:
		r, _ = stmts[0].(*ast.ReturnStmt)
	case 2:
		if _, ok := stmts[0].(*ast.DeclStmt); ok {
			r, _ = stmts[1].(*ast.ReturnStmt)
		}
	}
	if r == nil {
		return "", false
	}
	var parts []string
	for _, e := range r.Results {
		parts = append(parts, normResult(e))
	}
	return strings.Join(parts, ","), true
}

func waitOne(s ast.Stmt, chName func(string) string) (*Instr, bool) {
	switch v := s.(type) {
	case *ast.ExprStmt:
		if c, ok := isRecv(v.X); ok && !isDoneRecv(v.X) {
			return &Instr{Op: "wait", Line: line(v), Chans: []string{chName(c)}, Ctx: false}, true
		}
	case *ast.SelectStmt:
		if len(v.Body.List) != 2 {
			return nil, false
		}
		c0 := v.Body.List[0].(*ast.CommClause)
		c1 := v.Body.List[1].(*ast.CommClause)
		e0, ok0 := c0.Comm.(*ast.ExprStmt)
		e1, ok1 := c1.Comm.(*ast.ExprStmt)
		if !ok0 || !ok1 || len(c0.Body) != 0 {
			return nil, false
		}
		c, ok := isRecv(e0.X)
		if !ok || isDoneRecv(e0.X) || !isDerivedDone(e1.X) {
			return nil, false
		}
		rk, ok := retKind(c1.Body)
		if !ok {
			return nil, false
		}
		return &Instr{Op: "wait", Line: line(v), Chans: []string{chName(c)}, Ctx: true, OnCtx: rk, RLine: retLine(c1.Body)}, true
	}
	return nil, false
}

func parseThread(stmts []ast.Stmt, isMain bool) []Instr {
	var out []Instr
	ident := func(s string) string { return s }
	i := 0
	for i < len(stmts) {
		s := stmts[i]
		i++
		switch v := s.(type) {
		case *ast.EmptyStmt:
			continue
		case *ast.DeclStmt:
			// var errN error  |  var zero T (only inside returns, handled there)
			gd := v.Decl.(*ast.GenDecl)
			okDecl := gd.Tok == token.VAR
			for _, sp := range gd.Specs {
				vs := sp.(*ast.ValueSpec)
				if len(vs.Values) != 0 || exprStr(vs.Type) != "error" {
					okDecl = false
				}
			}
			if !okDecl {
				refuse(v, "unrecognised declaration statement")
			}
			continue
		case *ast.RangeStmt:
			// for _, ch := range []<-chan struct{}{a, b} { wait }   |   for _, ch := range []chan<- struct{}{a,b} { close(ch) }
			cl, ok := v.X.(*ast.CompositeLit)
			if !ok || len(v.Body.List) != 1 {
				refuse(v, "unrecognised range statement")
				continue
			}
			var chans []string
			for _, e := range cl.Elts {
				chans = append(chans, exprStr(e))
			}
			if es, ok := v.Body.List[0].(*ast.ExprStmt); ok {
				if call, ok := es.X.(*ast.CallExpr); ok && exprStr(call.Fun) == "close" {
					out = append(out, Instr{Op: "close", Line: line(v), Chans: chans})
					continue
				}
			}
			w, ok := waitOne(v.Body.List[0], ident)
			if !ok {
				refuse(v, "unrecognised range body")
				continue
			}
			// sequential waits, one per channel, in order
			for _, c := range chans {
				wi := *w
				wi.Chans = []string{c}
				out = append(out, wi)
			}
			continue
		case *ast.ExprStmt:
			if w, ok := waitOne(v, ident); ok {
				out = append(out, *w)
				continue
			}
			if call, ok := v.X.(*ast.CallExpr); ok && exprStr(call.Fun) == "close" && len(call.Args) == 1 {
				out = append(out, Instr{Op: "close", Line: line(v), Chans: []string{exprStr(call.Args[0])}})
				continue
			}
			refuse(v, "unrecognised expression statement: "+exprStr(v.X))
			continue
		case *ast.SelectStmt:
			if w, ok := waitOne(v, ident); ok {
				out = append(out, *w)
				continue
			}
			refuse(v, "unrecognised select")
			continue
		case *ast.AssignStmt:
			if len(v.Rhs) != 1 {
				refuse(v, "unrecognised assignment")
				continue
			}
			rhs := v.Rhs[0]
			// _ = eg.Wait()
			if exprStr(rhs) == egName+".Wait()" {
				out = append(out, Instr{Op: "egwait", Line: line(v), Chk: false})
				continue
			}
			// field read: x = s.F
			if sel, ok := rhs.(*ast.SelectorExpr); ok && len(v.Lhs) == 1 {
				if _, ok := sel.X.(*ast.Ident); ok {
					out = append(out, Instr{Op: "field", Line: line(v), Src: exprStr(sel.X), Field: sel.Sel.Name, Dst: exprStr(v.Lhs[0])})
					continue
				}
			}
			// provider call: a, b, err = <provider>.Fn()(args)
			call, ok := rhs.(*ast.CallExpr)
			if !ok {
				refuse(v, "unrecognised assignment rhs")
				continue
			}
			inner, ok := call.Fun.(*ast.CallExpr)
			var pid string
			if ok {
				if sel, ok2 := inner.Fun.(*ast.SelectorExpr); ok2 && sel.Sel.Name == "Fn" {
					pid = providerID(sel.X)
				}
			}
			if pid == "" {
				refuse(v, "unrecognised call: "+exprStr(rhs))
				continue
			}
			in := Instr{Op: "call", Line: line(v), P: pid}
			for _, a := range call.Args {
				in.Args = append(in.Args, exprStr(a))
			}
			for _, l := range v.Lhs {
				in.Rets = append(in.Rets, exprStr(l))
			}
			if n := len(in.Rets); n > 0 && strings.HasPrefix(in.Rets[n-1], "err") {
				in.Fall = true
				errv := in.Rets[n-1]
				in.Rets = in.Rets[:n-1]
				// following: if errN != nil { return ... }  (or nothing / empty statement)
				for i < len(stmts) {
					if _, ok := stmts[i].(*ast.EmptyStmt); ok {
						i++
						continue
					}
					break
				}
				if i < len(stmts) {
					if ifs, ok := stmts[i].(*ast.IfStmt); ok && ifs.Init == nil && exprStr(ifs.Cond) == errv+" != nil" {
						rk, ok := retKind(ifs.Body.List)
						if ok {
							in.ErrCk = "ret:" + rk
							in.RLine = retLine(ifs.Body.List)
							i++
						} else {
							refuse(ifs, "unrecognised error branch")
							i++
						}
					}
				}
			}
			out = append(out, in)
			continue
		case *ast.IfStmt:
			// if err := eg.Wait(); err != nil { return nil, err }
			if v.Init != nil && exprStrStmt(v.Init) == egName+".Wait()" {
				rk, ok := retKind(v.Body.List)
				if ok {
					out = append(out, Instr{Op: "egwait", Line: line(v), Chk: true, OnCtx: rk, RLine: retLine(v.Body.List)})
					continue
				}
			}
			refuse(v, "unrecognised if statement")
			continue
		case *ast.ReturnStmt:
			if i != len(stmts) {
				refuse(v, "return before the end of a thread")
			}
			in := Instr{Op: "ret", Line: line(v), RLine: line(v)}
			if isMain {
				if len(v.Results) >= 1 {
					in.V = exprStr(v.Results[0])
				}
				if len(v.Results) == 2 && exprStr(v.Results[1]) != "nil" {
					refuse(v, "final return with a non-nil error expression")
				}
			} else {
				if len(v.Results) != 1 || exprStr(v.Results[0]) != "nil" {
					refuse(v, "goroutine does not end with return nil")
				}
				in.Op = "gend"
			}
			out = append(out, in)
			continue
		default:
			refuse(s, fmt.Sprintf("unrecognised statement %T", s))
		}
	}
	return out
}

func main() {
	if len(os.Args) < 3 {
		fmt.Fprintln(os.Stderr, "usage: extract <genfile> <injector> [declid]")
		os.Exit(2)
	}
	src, err := os.ReadFile(os.Args[1])
	if err != nil {
		fmt.Fprintln(os.Stderr, err)
		os.Exit(2)
	}
	f, err := parser.ParseFile(fset, os.Args[1], src, 0)
	if err != nil {
		fmt.Fprintln(os.Stderr, "parse:", err)
		os.Exit(3)
	}
	prog = Program{Func: os.Args[2], Sites: map[string]string{}, Unmodelled: []string{}, Vars: []string{}, Chans: []string{}}
	if len(os.Args) > 3 {
		prog.Decl = os.Args[3]
	}
	var fn *ast.FuncDecl
	for _, d := range f.Decls {
		if fd, ok := d.(*ast.FuncDecl); ok && fd.Name.Name == os.Args[2] {
			fn = fd
		}
	}
	if fn == nil {
		fmt.Fprintln(os.Stderr, "no such function")
		os.Exit(3)
	}
	if fn.Type.Params != nil {
		for _, fl := range fn.Type.Params.List {
			for _, n := range fl.Names {
				prog.Params = append(prog.Params, []string{n.Name, exprStr(fl.Type)})
			}
		}
	}
	if fn.Type.Results != nil {
		for _, fl := range fn.Type.Results.List {
			prog.Results = append(prog.Results, exprStr(fl.Type))
		}
	}
	prog.HasErr = len(prog.Results) > 0 && prog.Results[len(prog.Results)-1] == "error"
	for _, st := range fn.Body.List {
		if as, ok := st.(*ast.AssignStmt); ok && as.Tok == token.DEFINE && len(as.Rhs) == 1 {
			rs := exprStr(as.Rhs[0])
			if strings.Contains(rs, ".WithContext(") && len(as.Lhs) == 2 {
				egName, ctxName = exprStr(as.Lhs[0]), exprStr(as.Lhs[1])
			} else if strings.Contains(rs, ".Group{}") && len(as.Lhs) == 1 {
				egName = exprStr(as.Lhs[0])
			}
		}
	}
	siteWalk(fn.Body)

	stmts := fn.Body.List
	var mainStmts []ast.Stmt
	prog.Threads = [][]Instr{nil}
	for _, s := range stmts {
		switch v := s.(type) {
		case *ast.DeclStmt:
			gd := v.Decl.(*ast.GenDecl)
			handled := false
			if gd.Tok == token.VAR && len(mainStmts) == 0 && prog.EgForm == "" {
				isBlock := true
				for _, sp := range gd.Specs {
					vs := sp.(*ast.ValueSpec)
					if len(vs.Values) == 1 && strings.HasPrefix(exprStr(vs.Values[0]), "make(chan struct{}") {
						prog.Chans = append(prog.Chans, vs.Names[0].Name)
					} else if len(vs.Values) == 0 && !(len(gd.Specs) == 1 && exprStr(vs.Type) == "error") {
						prog.Vars = append(prog.Vars, vs.Names[0].Name)
						prog.VarTypes = append(prog.VarTypes, []string{vs.Names[0].Name, exprStr(vs.Type)})
					} else {
						isBlock = false
					}
				}
				handled = isBlock
			}
			if !handled {
				mainStmts = append(mainStmts, s)
			}
		case *ast.AssignStmt:
			rs := ""
			if len(v.Rhs) == 1 {
				rs = exprStr(v.Rhs[0])
			}
			if len(v.Lhs) >= 1 && exprStr(v.Lhs[0]) == egName && v.Tok == token.DEFINE && (strings.Contains(rs, ".WithContext(") || strings.Contains(rs, ".Group{}")) {
				if strings.Contains(rs, ".WithContext(") && len(v.Lhs) == 2 {
					prog.EgForm = "withctx"
					call := v.Rhs[0].(*ast.CallExpr)
					prog.EgParent = exprStr(call.Args[0])
					if exprStr(v.Lhs[1]) != prog.EgParent {
						// the derived context lives in another variable than the parent: waits must use it
						ctxName = exprStr(v.Lhs[1])
					}
				} else if strings.HasSuffix(rs, "errgroup.Group{}") || strings.Contains(rs, ".Group{}") {
					prog.EgForm = "plain"
				} else {
					refuse(v, "unrecognised errgroup declaration")
				}
				continue
			}
			mainStmts = append(mainStmts, s)
		case *ast.ExprStmt:
			if call, ok := v.X.(*ast.CallExpr); ok && exprStr(call.Fun) == egName+".Go" && len(call.Args) == 1 {
				if fl, ok := call.Args[0].(*ast.FuncLit); ok {
					if len(mainStmts) != 0 {
						refuse(v, "goroutine started after a main-thread statement")
					}
					prog.Threads = append(prog.Threads, parseThread(fl.Body.List, false))
					continue
				}
			}
			mainStmts = append(mainStmts, s)
		default:
			mainStmts = append(mainStmts, s)
		}
	}
	prog.Threads[0] = parseThread(mainStmts, true)
	for ti := range prog.Threads {
		for ii := range prog.Threads[ti] {
			in := &prog.Threads[ti][ii]
			if in.Chans == nil {
				in.Chans = []string{}
			}
			if in.Args == nil {
				in.Args = []string{}
			}
			if in.Rets == nil {
				in.Rets = []string{}
			}
		}
	}
	if prog.Params == nil {
		prog.Params = [][]string{}
	}
	if prog.VarTypes == nil {
		prog.VarTypes = [][]string{}
	}
	b, _ := json.Marshal(prog)
	os.Stdout.Write(b)
}
