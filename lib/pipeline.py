"""Shared pipeline steps: build the CLI from /repo's working tree, generate scratch packages, run the generator, build
and run the instrumented drivers, run TLC.  Everything lives in a temp dir outside /repo and /verif and is removed."""
import os
import sys
import json
import time
import shutil
import tempfile
import subprocess
import concurrent.futures as cf
import atexit
import threading

VERIF = '/verif'
REPO = os.environ.get('REPO', '/repo')
TOOLCHAIN = '/root/go/pkg/mod/golang.org/toolchain@v0.0.1-go1.25.5.linux-amd64/bin'
NCPU = os.cpu_count() or 8

sys.path.insert(0, os.path.join(VERIF, 'lib'))
import declgen  # noqa: E402


def go_env(extra=None, scratch=True):
    env = dict(os.environ)
    if os.path.isdir(TOOLCHAIN):
        env['PATH'] = TOOLCHAIN + ':' + env.get('PATH', '')
    env.update({'GOTOOLCHAIN': 'local', 'GOPROXY': 'off', 'GONOSUMDB': '*', 'GOSUMDB': 'off',
                'CGO_ENABLED': env.get('CGO_ENABLED', '1')})
    env['GOFLAGS'] = '-mod=mod' if scratch else ''
    env['GOCACHE'] = gocache()
    if extra:
        env.update(extra)
    return env


class ExitTwo(Exception):
    """Machinery problem: the check could not decide (exit status 2)."""


def run(cmd, cwd=None, env=None, timeout=600, check=False, input=None):
    try:
        p = subprocess.run(cmd, cwd=cwd, env=env, timeout=timeout, capture_output=True, text=True, input=input)
    except subprocess.TimeoutExpired as e:
        raise ExitTwo('timeout: %s' % (cmd,)) from e
    if check and p.returncode != 0:
        raise ExitTwo('command failed (%d): %s\n%s\n%s' % (p.returncode, cmd, p.stdout[-2000:], p.stderr[-4000:]))
    return p


class Work:
    """A scratch area (removed on close)."""

    def __init__(self, tag='kv'):
        base = os.environ.get('VERIF_TMP', tempfile.gettempdir())
        self.dir = tempfile.mkdtemp(prefix='verif-%s-' % tag, dir=base)
        self.t0 = time.time()

    def path(self, *a):
        return os.path.join(self.dir, *a)

    def close(self):
        if os.environ.get('VERIF_KEEP'):
            print('kept scratch', self.dir, file=sys.stderr)
            return
        shutil.rmtree(self.dir, ignore_errors=True)

    def __enter__(self):
        return self

    def __exit__(self, *a):
        self.close()


def build_cli(work, tags='verif'):
    """Build cmd/kessoku from the CURRENT working tree of /repo (hooks enabled through the verif tag)."""
    out = work.path('kessoku')
    p = run(['go', 'build', '-tags', tags, '-o', out, './cmd/kessoku'], cwd=REPO, env=go_env(scratch=False), timeout=600)
    if p.returncode != 0:
        raise ExitTwo('cannot build the kessoku CLI from %s:\n%s' % (REPO, p.stderr[-4000:]))
    return out


BASE_CACHE = os.path.join(os.environ.get('VERIF_CACHE', '/root/.cache/kessoku-verif'), 'gocache')
PROC_CACHE_LIMIT_KB = 10 * 1024 * 1024
_proc_cache = {'dir': None}
_cache_lock = threading.Lock()


def _clone_base(d):
    os.makedirs(BASE_CACHE, exist_ok=True)
    p = subprocess.run(['cp', '-al', BASE_CACHE + '/.', d], capture_output=True, text=True)
    if p.returncode != 0:
        subprocess.run(['cp', '-a', BASE_CACHE + '/.', d], capture_output=True, text=True)


def gocache():
    """The Go build cache of THIS check process: a hard-link clone of the warm base cache ($VERIF_CACHE/gocache: std with
    -race, the CLI's dependencies, the harness), private to the process and removed at exit.  Scratch packages are
    unique, so a shared cache would only grow, and trimming a shared cache breaks the builds of checks running at the
    same time.  Nothing ever deletes from the base cache while checks run (bin/setup.sh rebuilds it when it is alone)."""
    if os.environ.get('VERIF_SHARED_GOCACHE'):
        return BASE_CACHE
    with _cache_lock:
        if _proc_cache['dir'] is None:
            base = os.environ.get('VERIF_TMP', tempfile.gettempdir())
            d = tempfile.mkdtemp(prefix='verif-gocache-', dir=base)
            _clone_base(d)
            atexit.register(shutil.rmtree, d, True)
            _proc_cache['dir'] = d
        return _proc_cache['dir']


def trim_gocache():
    """Call only where this process runs no build: drop the private cache and clone the base again once it is large."""
    d = _proc_cache['dir']
    if d is None:
        return
    try:
        kb = int(subprocess.run(['du', '-sk', d], capture_output=True, text=True, timeout=600).stdout.split()[0])
    except Exception:
        return
    if kb > PROC_CACHE_LIMIT_KB:
        with _cache_lock:
            shutil.rmtree(d, ignore_errors=True)
            os.makedirs(d, exist_ok=True)
            _clone_base(d)


def build_tools():
    """Build the harness tools (drivergen, extract, ...) into /verif/build (idempotent, fast)."""
    os.makedirs(os.path.join(VERIF, 'build'), exist_ok=True)
    p = run(['go', 'build', '-o', os.path.join(VERIF, 'build') + '/', './cmd/...'], cwd=os.path.join(VERIF, 'harness'),
            env=go_env(scratch=False), timeout=600)
    if p.returncode != 0:
        raise ExitTwo('cannot build harness tools:\n' + p.stderr[-4000:])


def tool(name):
    return os.path.join(VERIF, 'build', name)


def pkg_of(d):
    return d.get('group') or d['id']


def make_scratch(work, decls, name='scratch'):
    root = work.path(name)
    declgen.write_module(root, repo=REPO)
    groups = {}
    for d in decls:
        if d.get('group'):
            groups.setdefault(d['group'], []).append(d)
        else:
            declgen.write_pkg(d, os.path.join(root, d['id']))
    for g, ds_ in groups.items():
        declgen.write_group(ds_, os.path.join(root, g))
    return root


def run_generator(cli, pkgdir, files=('k.go',), env_extra=None, timeout=120):
    p = run([cli] + list(files), cwd=pkgdir, env=go_env(env_extra), timeout=timeout)
    return p.returncode, p.stdout, p.stderr


def pmap(fn, items, workers=None):
    workers = workers or NCPU
    with cf.ThreadPoolExecutor(max_workers=workers) as ex:
        return list(ex.map(fn, items))


def generate_all(cli, root, decls):
    """Run the generator once per package; returns {declaration id: (rc, stderr)}."""
    pkgs = sorted({pkg_of(d) for d in decls})

    def one(p):
        rc, out, err = run_generator(cli, os.path.join(root, p))
        return p, (rc, err)
    res = dict(pmap(one, pkgs))
    return {d['id']: res[pkg_of(d)] for d in decls}


def drivergen_all(root, ids):
    def one(i):
        p = run([tool('drivergen'), os.path.join(root, i)], timeout=60)
        return i, (p.returncode, p.stderr)
    return dict(pmap(one, ids))


def build_drivers(root, ids, race=True):
    """go build every driver; returns {id: None | compile error text}."""
    bindir = os.path.join(root, 'bin')
    os.makedirs(bindir, exist_ok=True)
    errs = {}
    remaining = list(ids)
    flags = ['-race'] if race else []
    for attempt in range(6):
        if not remaining:
            break
        p = run(['go', 'build'] + flags + ['-o', bindir + '/'] + ['./' + i for i in remaining], cwd=root,
                env=go_env(), timeout=1800)
        if p.returncode == 0:
            break
        # find failing packages: lines "# scratch/<id>"
        bad = []
        cur = None
        for ln in p.stderr.splitlines():
            if ln.startswith('# scratch/'):
                cur = ln.split('/', 1)[1].split()[0]
                if cur in remaining and cur not in bad:
                    bad.append(cur)
                    errs[cur] = ''
            elif cur in errs:
                errs[cur] += ln + '\n'
        if not bad:
            raise ExitTwo('go build of drivers failed without naming a package:\n' + p.stderr[-4000:])
        remaining = [i for i in remaining if i not in bad]
    res = {}
    for i in ids:
        if i in errs:
            res[i] = errs[i]
        elif os.path.exists(os.path.join(bindir, i)):
            res[i] = None
        else:
            res[i] = 'binary missing'
    return res


def run_driver(root, i, modes='none,fail,cancel,failcancel', maxruns=200, seed=1, gomaxprocs=None, timeout=600,
               path=None, reps=None, out=None, decl=None):
    """i = package (binary) name; decl = which injector of a multi-declaration package to drive"""
    out = out or os.path.join(root, i, 'trace-%s-%s.ndjson' % (decl or 'x', gomaxprocs or 'd'))
    if os.path.exists(out):
        os.remove(out)
    env = dict(os.environ)
    env.update({'VERIF_OUT': out, 'VERIF_MODES': modes, 'VERIF_MAXRUNS': str(maxruns), 'VERIF_SEED': str(seed),
                'GORACE': 'halt_on_error=0 exitcode=66 log_path=%s' % os.path.join(root, i, 'race-%s' % (decl or 'x')),
                'GOTRACEBACK': 'all', 'VERIF_YIELD': '1'})
    if gomaxprocs:
        env['GOMAXPROCS'] = str(gomaxprocs)
    if decl:
        env['VERIF_DECL'] = decl
    if path is not None:
        env['VERIF_PATH'] = ','.join(path)
    if reps:
        env['VERIF_REPS'] = str(reps)
    try:
        p = subprocess.run([os.path.join(root, 'bin', i)], cwd=os.path.join(root, i), env=env, timeout=timeout,
                           capture_output=True, text=True)
        rc, err = p.returncode, p.stderr
    except subprocess.TimeoutExpired:
        rc, err = 124, 'driver timeout'
    return {'id': i, 'rc': rc, 'stderr': err[-6000:], 'trace': out}


# --------------------------------------------------------------------------------------------------------------------
# TLC

def tlc(work, spec, cfg, files=None, workers=1, timeout=1800, extra=None, java_opts=None, name=None, heap='4g'):
    """Run TLC on /verif/spec/<spec>.tla with <cfg> inside a private copy of the spec directory.
    files: {name: text} written next to the spec (trace / constant data read through the Json module)."""
    name = name or ('tlc-%s-%d' % (spec, int(time.time() * 1000) % 100000))
    d = work.path(name)
    with _cache_lock:
        k = 0
        while os.path.exists(d):
            k += 1
            d = work.path('%s.%d' % (name, k))
        os.makedirs(d)
    shutil.copytree(os.path.join(VERIF, 'spec'), d, dirs_exist_ok=True)
    for fn, text in (files or {}).items():
        with open(os.path.join(d, fn), 'w') as f:
            f.write(text)
    meta = os.path.join(d, 'meta')
    cmd = ['timeout', str(timeout), 'tlc', '-workers', str(workers), '-metadir', meta, '-config', cfg,
           '-noGenerateSpecTE'] + (extra or []) + [spec + '.tla']
    env = dict(os.environ)
    jtmp = os.path.join(d, 'jtmp')
    os.makedirs(jtmp, exist_ok=True)
    env['JAVA_TOOL_OPTIONS'] = ('-Djava.io.tmpdir=%s -Xmx%s ' % (jtmp, heap)) + (java_opts or '')
    t0 = time.time()
    p = subprocess.run(cmd, cwd=d, env=env, capture_output=True, text=True)
    return {'rc': p.returncode, 'out': p.stdout, 'err': p.stderr, 'dir': d, 'wall': time.time() - t0}


def tlc_stats(out):
    """(generated, distinct) from TLC's summary line."""
    import re
    m = re.search(r'(\d[\d,]*) states generated, (\d[\d,]*) distinct states found', out)
    if not m:
        return 0, 0
    return int(m.group(1).replace(',', '')), int(m.group(2).replace(',', ''))
