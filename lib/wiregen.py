"""google/wire configurations in the subset kessoku migrate supports (C13, C14): WireSpec construction, emission of
the instrumented Go package (wire.go / sets.go / types.go / main.go), and the abstract form read by spec/WireSem.tla.

WireSpec (dict):
  id, types {name: {form: ptr|val|iface|bstruct|fstruct, fields: [[fname, tname]], pkg: ''|'a/util'|'b/util'}}
  funcs [{name, requires [tname], provides tname, fallible, pkg}]
  elems [ {kind: func, name} | {kind: bind, iface, impl} | {kind: value, type} | {kind: ifacevalue, iface, impl}
        | {kind: struct, type, fields: ['*'] | [names], want: 'val'|'ptr'|'both'} | {kind: fieldsof, type, fields} ]
  layout: nested list of element indices and {'set': name, 'members': [...], 'file': k}
  injector {name, args [tname], ret tname, retform, haserr}
Abstract type names: a struct S built by wire.Struct exists as 'S' (value) and '*S' (pointer).
"""
import os
import json
import random
import copy


def use_form(spec, t):
    """Go type expression of abstract type t as used in signatures."""
    if t.startswith('*'):
        return '*' + qual(spec, t[1:])
    ty = spec['types'][t]
    if ty['form'] == 'mapof':
        return 'map[string]' + use_form(spec, ty['elem'])
    if ty['form'] == 'ptr' or ty['form'] == 'fstruct':
        return '*' + qual(spec, t)
    return qual(spec, t)


def goname(spec, t):
    return spec['types'][t].get('goname', t)


def qual(spec, t, frompkg=''):
    p = spec['types'][t].get('pkg', '')
    if p and p != frompkg:
        return spec['alias'][p] + '.' + goname(spec, t)
    return goname(spec, t)


# ---------------------------------------------------------------------------------------------------------------------
# abstract semantics (Python twin of WireSem.tla; used for sanity and for the kessoku-side expectation)

def abstract(spec, which=1):
    """-> record for WireSem.tla: providers with uniform fields (which=2: the second injector, built from a subset of the elements)"""
    provs = []
    fnames = {f['name']: f for f in spec['funcs']}
    all_elems = spec['elems']
    if which == 2:
        spec = dict(spec)
        spec['elems'] = [all_elems[i] for i in spec['injector2']['elems']]
    for e in spec['elems']:
        k = e['kind']
        if k == 'func':
            f = fnames[e['name']]
            provs.append({'id': f['name'], 'kind': 'fn', 'requires': list(f['requires']), 'provides': [[f['provides']]],
                          'fallible': f['fallible'], 'stype': '', 'fields': [], 'allfields': [], 'alltypes': []})
    for e in spec['elems']:
        k = e['kind']
        if k == 'bind':
            for p in provs:
                if p['provides'][0][0] == e['impl']:
                    p['provides'][0].append(e['iface'])
        elif k == 'value':
            provs.append({'id': 'val:' + e['type'], 'kind': 'value', 'requires': [], 'provides': [[e['type']]], 'fallible': False,
                          'stype': '', 'fields': [], 'allfields': [], 'alltypes': []})
        elif k == 'ifacevalue':
            provs.append({'id': 'ival:' + e['iface'], 'kind': 'value', 'requires': [], 'provides': [[e['iface']]], 'fallible': False,
                          'stype': '', 'fields': [], 'allfields': [], 'alltypes': []})
        elif k == 'struct':
            s = e['type']
            allf = spec['types'][s]['fields']
            used = allf if e['fields'] == ['*'] else [f for f in allf if f[0] in e['fields']]
            provs.append({'id': 'struct:' + s, 'kind': 'struct', 'requires': [f[1] for f in used], 'provides': [[s], ['*' + s]],
                          'fallible': False, 'stype': s, 'fields': [f[0] for f in used], 'allfields': [f[0] for f in allf],
                          'alltypes': [f[1] for f in allf]})
        elif k == 'fieldsof':
            s = e['type']
            for fn_, ft in spec['types'][s]['fields']:
                if fn_ in e['fields']:
                    provs.append({'id': 'fld:%s.%s' % (s, fn_), 'kind': 'field', 'requires': [s], 'provides': [[ft]], 'fallible': False,
                                  'stype': s, 'fields': [fn_], 'allfields': [], 'alltypes': []})
    inj = spec['injector'] if which == 1 else spec['injector2']
    forms = {}
    for t, ty in spec['types'].items():
        forms[t] = 'ptr' if ty['form'] == 'mapof' else ty['form']
        if ty['form'] == 'bstruct':
            forms['*' + t] = 'ptr'
    return {'id': spec['id'] + ('' if which == 1 else '#2'), 'ret': inj['ret'], 'args': list(inj['args']), 'haserr': inj['haserr'], 'forms': forms, 'providers': provs}


# ---------------------------------------------------------------------------------------------------------------------
# Go emission

RTW = '''
// ---- harness runtime (call log, symbolic terms) ----
type callRec struct {
	Name string   `json:"name"`
	Args []string `json:"args"`
}

var Calls []callRec
var FailSet = map[string]bool{}

type ProvErr struct{ P string }

func (e *ProvErr) Error() string { return "err:" + e.P }

func Enter(name string, args ...string) bool {
	Calls = append(Calls, callRec{name, append([]string{}, args...)})
	return !FailSet[name]
}

func TermOf(v any) string {
	if v == nil {
		return "nil"
	}
	if rv := reflect.ValueOf(v); rv.Kind() == reflect.Ptr && rv.IsNil() {
		return "nil"
	} else if rv.Kind() == reflect.Map {
		e := rv.MapIndex(reflect.ValueOf("t"))
		if !e.IsValid() {
			return "nil"
		}
		return TermOf(e.Interface())
	}
	if t, ok := v.(interface{ GetTerm() string }); ok {
		return t.GetTerm()
	}
	return "?"
}
'''


def emit_type(spec, name, ty, pkg):
    """type declaration + GetTerm + constructor, inside package pkg ('' = main package)"""
    name = ty.get('goname', name)
    out = []
    form = ty['form']
    if form == 'mapof':
        et = use_form_in(spec, ty['elem'], pkg)
        return 'func Mk%s(term string) map[string]%s { return map[string]%s{"t": %s(term)} }\n' % (name, et, et, mk_name(spec, ty['elem'], pkg))
    if form == 'iface':
        out.append('type %s interface{ GetTerm() string }\n' % name)
        return ''.join(out)
    fields = ty.get('fields', [])
    if form == 'bstruct':
        # built by wire.Struct: exported fields only, content-based term
        fl = ''.join('\t%s %s\n' % (fn_, use_form_in(spec, ft, pkg)) for fn_, ft in fields)
        out.append('type %s struct {\n%s}\n' % (name, fl))
        parts = ' + "," + '.join('rtw.TermOf(s.%s)' % fn_ for fn_, ft in fields) or '""'
        out.append('func (s %s) GetTerm() string { return "%s{" + %s + "}" }\n' % (name, name, parts))
        return ''.join(out)
    if form == 'fstruct':
        fl = ''.join('\t%s %s\n' % (fn_, use_form_in(spec, ft, pkg)) for fn_, ft in fields)
        out.append('type %s struct {\n\tterm string\n%s}\n' % (name, fl))
        out.append('func (s *%s) GetTerm() string {\n\tif s == nil {\n\t\treturn "nil"\n\t}\n\treturn s.term\n}\n' % name)
        init = ''.join(', %s: %s("fld(" + term + ",%s)")' % (fn_, mk_name(spec, ft, pkg), fn_) for fn_, ft in fields)
        out.append('func Mk%s(term string) *%s { return &%s{term: term%s} }\n' % (name, name, name, init))
        return ''.join(out)
    out.append('type %s struct{ term string }\n' % name)
    if form == 'ptr':
        out.append('func (t *%s) GetTerm() string {\n\tif t == nil {\n\t\treturn "nil"\n\t}\n\treturn t.term\n}\n' % name)
        out.append('func Mk%s(term string) *%s { return &%s{term: term} }\n' % (name, name, name))
    else:
        out.append('func (t %s) GetTerm() string {\n\tif t.term == "" {\n\t\treturn "zero"\n\t}\n\treturn t.term\n}\n' % name)
        out.append('func Mk%s(term string) %s { return %s{term: term} }\n' % (name, name, name))
    return ''.join(out)


def use_form_in(spec, t, pkg):
    if t.startswith('*'):
        return '*' + qual(spec, t[1:], pkg)
    ty = spec['types'][t]
    if ty['form'] == 'mapof':
        return 'map[string]' + use_form_in(spec, ty['elem'], pkg)
    star = '*' if ty['form'] in ('ptr', 'fstruct') else ''
    return star + qual(spec, t, pkg)


def mk_name(spec, t, pkg):
    p = spec['types'][t].get('pkg', '')
    if p and p != pkg:
        return spec['alias'][p] + '.Mk' + goname(spec, t)
    return 'Mk' + goname(spec, t)


def emit_func(spec, f, pkg):
    params = ['a%d %s' % (i, use_form_in(spec, r, pkg)) for i, r in enumerate(f['requires'])]
    pre = 'rtw.'
    terms = ', '.join('%sTermOf(a%d)' % (pre, i) for i in range(len(f['requires'])))
    rt = use_form_in(spec, f['provides'], pkg)
    term = '"%s(" + strings.Join(at, ",") + ")#0"' % f['name']
    body = '\tat := []string{%s}\n' % terms
    mk = mk_name(spec, f['provides'], pkg)
    if f['fallible']:
        zero = 'nil' if rt.startswith('*') else rt + '{}'
        body += '\tif !%sEnter("%s", at...) {\n\t\treturn %s, &%sProvErr{P: "%s"}\n\t}\n' % (pre, f['name'], zero, pre, f['name'])
        body += '\treturn %s(%s), nil\n' % (mk, term)
        return 'func %s(%s) (%s, error) {\n%s}\n' % (f['name'], ', '.join(params), rt, body)
    body += '\t%sEnter("%s", at...)\n\treturn %s(%s)\n' % (pre, f['name'], mk, term)
    return 'func %s(%s) %s {\n%s}\n' % (f['name'], ', '.join(params), rt, body)


def elem_expr(spec, e):
    k = e['kind']
    if k == 'func':
        f = next(x for x in spec['funcs'] if x['name'] == e['name'])
        return (spec['alias'][f['pkg']] + '.' if f.get('pkg') else '') + f['name']
    if k == 'bind':
        return 'wire.Bind(new(%s), new(%s))' % (qual(spec, e['iface']), use_form(spec, e['impl']))
    if k == 'value':
        if e.get('holder'):
            return 'wire.Value(%sHold%s.V)' % ((spec['alias'][e['pkg']] + '.') if e.get('pkg') else '', e['type'])
        return 'wire.Value(%sVal%s)' % ((spec['alias'][e['pkg']] + '.') if e.get('pkg') else '', e['type'])
    if k == 'ifacevalue':
        return 'wire.InterfaceValue(new(%s), %sIval%s)' % (qual(spec, e['iface']), (spec['alias'][e['pkg']] + '.') if e.get('pkg') else '', e['iface'])
    if k == 'struct':
        return 'wire.Struct(new(%s), %s)' % (qual(spec, e['type']), ', '.join('"%s"' % f for f in e['fields']))
    if k == 'fieldsof':
        return 'wire.FieldsOf(new(*%s), %s)' % (qual(spec, e['type']), ', '.join('"%s"' % f for f in e['fields']))
    raise ValueError(k)


def emit_layout(spec, layout, setdecls):
    items = []
    for x in layout:
        if isinstance(x, dict):
            inner = emit_layout(spec, x['members'], setdecls)
            setdecls.append((x['set'], x.get('file', 0), 'var %s = wire.NewSet(\n\t%s,\n)\n' % (x['set'], ',\n\t'.join(inner))))
            items.append(x['set'])
        else:
            items.append(elem_expr(spec, spec['elems'][x]))
    return items


def needs_imports(spec, text):
    import re
    im = []
    for p, a in spec['alias'].items():
        if re.search(r'(?<![A-Za-z0-9_])' + a + r'\.', text):
            if a == p.split('/')[-1]:
                im.append('\t"scratchw/%s/%s"' % (spec['id'], p))       # no alias where the package name says it all
            else:
                im.append('\t%s "scratchw/%s/%s"' % (a, spec['id'], p))
    return im


def write_pkg(spec, root):
    """root/<id>/ : types.go, sets<k>.go, wire.go, main.go  (+ sub-packages a/util, b/util, rtw)"""
    d = os.path.join(root, spec['id'])
    os.makedirs(d, exist_ok=True)
    subpk = sorted({ty.get('pkg', '') for ty in spec['types'].values()} | {f.get('pkg', '') for f in spec['funcs']} | {e.get('pkg', '') for e in spec['elems']})
    subpk = [p for p in subpk if p]
    # runtime: package rtw when sub-packages exist (they must share the log), else inline
    os.makedirs(os.path.join(d, 'rtw'), exist_ok=True)
    open(os.path.join(d, 'rtw', 'rtw.go'), 'w').write('package rtw\n\nimport "reflect"\n' + RTW)
    for p in subpk:
        pd = os.path.join(d, p)
        os.makedirs(pd, exist_ok=True)
        body = ''
        for name, ty in sorted(spec['types'].items()):
            if ty.get('pkg', '') == p:
                body += emit_type(spec, name, ty, p) + '\n'
        for f in spec['funcs']:
            if f.get('pkg', '') == p:
                body += emit_func(spec, f, p) + '\n'
        for e in spec['elems']:
            if e.get('pkg') == p and e['kind'] == 'value' and e.get('holder'):
                body += 'var Hold%s = struct{ V %s }{V: %s("val:%s")}\n' % (e['type'], use_form_in(spec, e['type'], p), mk_name(spec, e['type'], p), e['type'])
            elif e.get('pkg') == p and e['kind'] == 'value':
                body += 'var Val%s = %s("val:%s")\n' % (e['type'], mk_name(spec, e['type'], p), e['type'])
            elif e.get('pkg') == p and e['kind'] == 'ifacevalue':
                body += 'var Ival%s = %s("ival:%s")\n' % (e['iface'], mk_name(spec, e['impl'], p), e['iface'])
        im = ['\t"strings"', '\t"scratchw/%s/rtw"' % spec['id']]
        import re
        for q, a in spec['alias'].items():
            if q != p and re.search(r'(?<![A-Za-z0-9_])' + a + r'\.', body):
                im.append('\t%s "scratchw/%s/%s"' % (a, spec['id'], q))
        src = 'package %s\n\nimport (\n%s\n)\n\nvar _ = strings.Join\nvar _ = rtw.TermOf\n\n%s' % (p.split('/')[-1], '\n'.join(im), body)
        open(os.path.join(pd, 'x.go'), 'w').write(src)
    body = ''
    for name, ty in sorted(spec['types'].items()):
        if not ty.get('pkg'):
            body += emit_type(spec, name, ty, '') + '\n'
    for f in spec['funcs']:
        if not f.get('pkg'):
            body += emit_func(spec, f, '') + '\n'
    for e in spec['elems']:
        if e.get('pkg'):
            continue
        if e['kind'] == 'value' and e.get('holder'):
            body += 'var Hold%s = struct{ V %s }{V: %s("val:%s")}\n' % (e['type'], use_form_in(spec, e['type'], ''), mk_name(spec, e['type'], ''), e['type'])
        elif e['kind'] == 'value':
            body += 'var Val%s = %s("val:%s")\n' % (e['type'], mk_name(spec, e['type'], ''), e['type'])
        elif e['kind'] == 'ifacevalue':
            body += 'var Ival%s = %s("ival:%s")\n' % (e['iface'], mk_name(spec, e['impl'], ''), e['iface'])
    im = ['\t"strings"', '\t"scratchw/%s/rtw"' % spec['id']] + needs_imports(spec, body)
    open(os.path.join(d, 'types.go'), 'w').write('package main\n\nimport (\n%s\n)\n\nvar _ = strings.Join\nvar _ = rtw.TermOf\n\n%s' % ('\n'.join(im), body))
    # sets and injector
    setdecls = []
    items = emit_layout(spec, spec['layout'], setdecls)
    byfile = {}
    for name, fk, src in setdecls:
        byfile.setdefault(fk, []).append(src)
    for fk, srcs in byfile.items():
        text = ''.join(srcs)
        wimp = '\t"github.com/google/wire"'
        if fk % 2 == 1:
            # this file imports wire under another name than the file with the injectors
            import re as _re
            text = _re.sub(r'(?<![A-Za-z0-9_.])wire\.', 'gowire.', text)
            wimp = '\tgowire "github.com/google/wire"'
        im = [wimp] + needs_imports(spec, text)
        open(os.path.join(d, 'sets%d.go' % fk), 'w').write('package main\n\nimport (\n%s\n)\n\n%s' % ('\n'.join(im), text))
    inj = spec['injector']
    params = ', '.join('p%d %s' % (i, use_form(spec, a)) for i, a in enumerate(inj['args']))
    rt = use_form(spec, inj['ret'])
    zero = 'nil' if rt.startswith('*') or spec['types'].get(inj['ret'].lstrip('*'), {}).get('form') == 'iface' else rt + '{}'
    if inj['haserr']:
        sig = 'func %s(%s) (%s, error) {\n\twire.Build(\n\t\t%s,\n\t)\n\treturn %s, nil\n}\n' % (inj['name'], params, rt, ',\n\t\t'.join(items), zero)
    else:
        sig = 'func %s(%s) %s {\n\twire.Build(\n\t\t%s,\n\t)\n\treturn %s\n}\n' % (inj['name'], params, rt, ',\n\t\t'.join(items), zero)
    if spec.get('injector2'):
        i2 = spec['injector2']
        params2 = ', '.join('p%d %s' % (i, use_form(spec, a)) for i, a in enumerate(i2['args']))
        rt2 = use_form(spec, i2['ret'])
        zero2 = 'nil' if rt2.startswith('*') or spec['types'].get(i2['ret'].lstrip('*'), {}).get('form') == 'iface' else rt2 + '{}'
        items2 = [elem_expr(spec, spec['elems'][k]) for k in i2['elems']]
        if i2['haserr']:
            sig += '\nfunc %s(%s) (%s, error) {\n\twire.Build(\n\t\t%s,\n\t)\n\treturn %s, nil\n}\n' % (i2['name'], params2, rt2, ',\n\t\t'.join(items2), zero2)
        else:
            sig += '\nfunc %s(%s) %s {\n\twire.Build(\n\t\t%s,\n\t)\n\treturn %s\n}\n' % (i2['name'], params2, rt2, ',\n\t\t'.join(items2), zero2)
    im = ['\t"github.com/google/wire"'] + needs_imports(spec, sig)
    open(os.path.join(d, 'wire.go'), 'w').write('//go:build wireinject\n\npackage main\n\nimport (\n%s\n)\n\n%s' % ('\n'.join(im), sig))
    json.dump(spec, open(os.path.join(d, 'spec.json'), 'w'))


def main_go(spec, params, injname=None):
    """driver calling the injector with symbolic arguments; params = the generated function's parameter types (Go exprs)"""
    injname = injname or spec['injector']['name']
    args = []
    for p in params:
        if p == 'context.Context':
            args.append('context.Background()')
            continue
        star = p.startswith('*')
        base = p.lstrip('*')
        tname = None
        exact = [key for key in spec['types'] if spec['types'][key]['form'] == 'mapof' and use_form(spec, key) == p]
        if exact:
            args.append(mk_name(spec, exact[0], '') + '("arg:%s")' % exact[0])
            continue
        for key, tt in spec['types'].items():
            if tt['form'] != 'mapof' and qual(spec, key) == base:
                tname = key
        ty = spec['types'].get(tname) if tname else None
        if ty is None:
            return None
        if ty['form'] == 'iface':
            args.append('argObj{"arg:%s"}' % tname)
        elif ty['form'] == 'bstruct':
            args.append(('&' if star else '') + qual(spec, tname) + '{}')
        else:
            mk = mk_name(spec, tname, '') + '("arg:%s")' % tname
            native_star = ty['form'] in ('ptr', 'fstruct')
            if star == native_star:
                args.append(mk)
            elif star:
                args.append('func() %s { v := %s; return &v }()' % (p, mk))
            else:
                args.append('*' + mk)
    call = '%s(%s)' % (injname, ', '.join(args))
    return call


MAIN_TMPL = '''package main

import (
	"context"
	"encoding/json"
	"errors"
	"fmt"
	"os"
	"strings"

	"scratchw/%(id)s/rtw"
)

type argObj struct{ t string }

func (a argObj) GetTerm() string { return a.t }

var _ = context.Background

func main() {
	for _, f := range strings.Split(os.Getenv("FAIL"), ",") {
		if f != "" {
			rtw.FailSet[f] = true
		}
	}
	%(callstmt)s
	cls := "nil"
	if err != nil {
		var pe *rtw.ProvErr
		if errors.As(err, &pe) {
			cls = "prov:" + pe.P
		} else {
			cls = "other:" + err.Error()
		}
	}
	calls := rtw.Calls
	if calls == nil {
		calls = []struct {
			Name string   `json:"name"`
			Args []string `json:"args"`
		}{}
	}
	b, _ := json.Marshal(map[string]any{"term": rtw.TermOf(r), "cls": cls, "calls": rtw.Calls})
	fmt.Println(string(b))
}
'''


def write_main(spec, d, injs, pkgid=None):
    """injs: [(injector name, parameter type expressions, has error result)]; the driver runs the one named by $INJ"""
    cases = []
    for name, params, haserr in injs:
        call = main_go(spec, params, name)
        if call is None:
            return False
        if haserr:
            cases.append('\tcase %s:\n\t\tv, e := %s\n\t\tr, err = v, e\n' % (json.dumps(name), call))
        else:
            cases.append('\tcase %s:\n\t\tr = %s\n' % (json.dumps(name), call))
    stmt = 'var r any\n\tvar err error\n\tswitch os.Getenv("INJ") {\n%s\t}' % ''.join(cases)
    src = MAIN_TMPL % {'id': pkgid or spec['id'], 'callstmt': stmt}
    src = src.replace('''	calls := rtw.Calls
	if calls == nil {
		calls = []struct {
			Name string   `json:"name"`
			Args []string `json:"args"`
		}{}
	}
''', '')
    open(os.path.join(d, 'main.go'), 'w').write(src)
    return True


# ---------------------------------------------------------------------------------------------------------------------
# random configurations

def random_spec(rng, sid, nmin=3, nmax=6, external=False, decoy=False, struct_value_form=False):
    types = {}
    funcs = []
    elems = []
    produced = []   # abstract types available
    args = []
    alias = {'a/util': 'util', 'b/util': 'butil', 'c/vals': 'vals', 'c/ifs': 'ifs', 'c/extra': 'extra', 'd/v2': 'v2', 'c/hold': 'hold'} if external else {}
    nT = [0]
    twin_done = [False]
    map_done = [False]

    def new_type(form=None, pkg=''):
        name = 'T%d' % nT[0]
        nT[0] += 1
        types[name] = {'form': form or rng.choice(['ptr', 'ptr', 'val']), 'pkg': pkg}
        return name

    def pick_inputs(kmax=3):
        req = []
        if produced:
            for t in rng.sample(produced, rng.randint(0, min(kmax, len(produced)))):
                req.append(t)
        if rng.random() < 0.3:
            if args and rng.random() < 0.5:
                a = rng.choice(args)
            else:
                a = 'A%d' % len(args)
                types[a] = {'form': rng.choice(['ptr', 'val']), 'pkg': ''}
                args.append(a)
            if a not in req:
                req.append(a)
        return req

    names = ['New%s', 'Provide%s', 'Make%s', 'Build%s', 'Open%s']
    n = rng.randint(nmin, nmax)
    nI = 0
    nS = 0
    for i in range(n):
        r = rng.random()
        if external and i == 0:
            # an interface value whose expression is the ONLY reference to its package in the migrated file
            impl = new_type('ptr', pkg='c/vals')
            iname = 'I%d' % nI
            nI += 1
            types[iname] = {'form': 'iface', 'pkg': ''}
            elems.append({'kind': 'ifacevalue', 'iface': iname, 'impl': impl, 'pkg': 'c/vals'})
            produced.append(iname)
            continue
        if r < 0.12 and i > 0:
            # injected constant (a variable of the main package, or an exported variable of a sub-package)
            vpkg = rng.choice(['a/util', 'c/vals', 'c/vals']) if external and rng.random() < 0.7 else ''
            t = new_type(pkg=vpkg)
            # the value may be reached through a longer selector chain: pkg.HoldT.V
            elems.append({'kind': 'value', 'type': t, 'pkg': vpkg, 'holder': rng.random() < 0.5})
            produced.append(t)
            continue
        if r < 0.2:
            # interface value
            vpkg = rng.choice(['b/util', 'c/vals', 'c/vals']) if external and rng.random() < 0.7 else ''
            impl = new_type('ptr', pkg=vpkg)
            iname = 'I%d' % nI
            nI += 1
            types[iname] = {'form': 'iface', 'pkg': ''}
            elems.append({'kind': 'ifacevalue', 'iface': iname, 'impl': impl, 'pkg': vpkg})
            produced.append(iname)
            continue
        if external and not twin_done[0] and r < 0.45:
            # two structs with the SAME name in two packages, each with a FieldsOf in this configuration
            twin_done[0] = True
            for pk, suffix in (('a/util', 'A'), ('b/util', 'B')):
                key = 'Config@' + suffix
                f1, f2 = new_type(pkg=pk), new_type(pkg=pk)
                types[key] = {'form': 'fstruct', 'fields': [['Fa', f1], ['Fb', f2]], 'pkg': pk, 'goname': 'Config'}
                fname = 'MakeConfig' + suffix
                funcs.append({'name': fname, 'requires': [], 'provides': key, 'fallible': False, 'pkg': pk})
                elems.append({'kind': 'func', 'name': fname})
                which = ['Fa'] if suffix == 'A' else ['Fb']
                elems.append({'kind': 'fieldsof', 'type': key, 'fields': which})
                produced.append(f1 if which == ['Fa'] else f2)
            continue
        if external and not map_done[0] and i >= 1:
            # a map whose ELEMENT type lives in another package, provided by a function and used as a struct field
            map_done[0] = True
            et = new_type('ptr', pkg='a/util')
            mname = 'M%d' % nT[0]
            nT[0] += 1
            types[mname] = {'form': 'mapof', 'elem': et, 'pkg': ''}
            funcs.append({'name': 'Make' + mname, 'requires': [], 'provides': mname, 'fallible': False, 'pkg': ''})
            elems.append({'kind': 'func', 'name': 'Make' + mname})
            produced.append(mname)
            continue
        if r < 0.36 and len(produced) >= 2:
            # a struct built by wire.Struct from what exists
            sname = 'B%d' % nS
            nS += 1
            k = rng.randint(2, min(3, len(produced)))
            ftypes = rng.sample(produced, k)
            maps_ = [t_ for t_ in produced if not t_.startswith('*') and types.get(t_, {}).get('form') == 'mapof']
            if maps_ and maps_[0] not in ftypes:
                ftypes[0] = maps_[0]
            fields = [['F%d' % j, ft] for j, ft in enumerate(ftypes)]
            listed = ['*'] if rng.random() < 0.5 else [f[0] for f in fields[: rng.randint(1, len(fields))]]
            if listed == ['*'] and rng.random() < 0.5:
                fields[-1][0] = 'f%d' % (len(fields) - 1)      # wire fills unexported fields of a struct of the injector's own package
            if external and listed != ['*'] and rng.random() < 0.6:
                # a field nobody selects, of a type whose package the configuration mentions nowhere else
                fields.append(['Fx', new_type(pkg='c/extra')])
            types[sname] = {'form': 'bstruct', 'fields': fields, 'pkg': ''}
            if listed != ['*'] and any(types.get(ft.lstrip('*'), {}).get('form') == 'bstruct' and not ft.startswith('*')
                                       for fn_, ft in fields if fn_ not in listed):
                listed = ['*']
            elems.append({'kind': 'struct', 'type': sname, 'fields': listed})
            if struct_value_form and rng.random() < 0.5:
                produced.append(sname)          # the value form is demanded by a consumer
            else:
                produced.append('*' + sname)
            continue
        if r < 0.5:
            # a struct produced by a function, some fields taken with FieldsOf
            sname = 'S%d' % nS
            nS += 1
            f1, f2 = new_type(), new_type()
            types[sname] = {'form': 'fstruct', 'fields': [['Fa', f1], ['Fb', f2]], 'pkg': ''}
            if external and rng.random() < 0.6:
                types[sname]['fields'].append(['Fx', new_type(pkg='c/extra')])     # never selected by FieldsOf
            fname = rng.choice(names) % sname
            funcs.append({'name': fname, 'requires': pick_inputs(2), 'provides': sname, 'fallible': rng.random() < 0.3, 'pkg': ''})
            elems.append({'kind': 'func', 'name': fname})
            which = rng.choice([['Fa'], ['Fb'], ['Fa', 'Fb']])
            elems.append({'kind': 'fieldsof', 'type': sname, 'fields': which})
            for fn_ in which:
                produced.append(f1 if fn_ == 'Fa' else f2)
            if rng.random() < 0.3:
                produced.append(sname)
            continue
        pkg = ''
        if external and rng.random() < 0.5:
            pkg = rng.choice(['a/util', 'b/util', 'd/v2'])
        t = new_type(pkg=pkg)
        bind = rng.random() < (0.55 if external else 0.3) and types[t]['form'] == 'ptr'
        if bind and rng.random() < 0.5:
            fname = 'New%s' % t      # the documented convention for Bind: constructor New<Type>
        else:
            fname = rng.choice(names) % t      # any name: the binding refers to the provider listed in the set
        req_ = pick_inputs()
        if pkg:
            # a sub-package cannot import the main package: only inputs it defines itself
            req_ = [r for r in req_ if types.get(r, {}).get('pkg') == pkg]
        funcs.append({'name': fname, 'requires': req_, 'provides': t, 'fallible': rng.random() < (0.55 if bind else 0.3), 'pkg': pkg})
        elems.append({'kind': 'func', 'name': fname})
        if bind:
            iname = 'I%d' % nI
            nI += 1
            # the interface may live in a package of its own, which then appears in the configuration ONLY as a type argument
            types[iname] = {'form': 'iface', 'pkg': 'c/ifs' if (external and rng.random() < 0.7) else ''}
            elems.append({'kind': 'bind', 'iface': iname, 'impl': t})
            produced.append(iname)
            if rng.random() < 0.4:
                produced.append(t)
            if decoy and rng.random() < 0.7:
                # the set uses another constructor than New<Type>; New<Type> exists but is not part of the configuration
                newname = 'New%s' % t
                if fname == newname:
                    real = 'Provide%s' % t
                    for f in funcs:
                        if f['name'] == fname:
                            f['name'] = real
                    for e in elems:
                        if e.get('name') == fname:
                            e['name'] = real
                funcs.append({'name': newname, 'requires': [], 'provides': t, 'fallible': False, 'pkg': pkg, 'decoy': True})
        else:
            produced.append(t)
    if external:
        # a package the configuration reaches ONLY through a selector chain: hold.HoldT.V
        t = new_type(pkg='c/hold')
        elems.append({'kind': 'value', 'type': t, 'pkg': 'c/hold', 'holder': True})
        produced.append(t)
    if external and not any(f_.get('pkg') == 'd/v2' for f_ in funcs):
        t = new_type(pkg='d/v2')
        funcs.append({'name': 'New%s' % t, 'requires': [], 'provides': t, 'fallible': False, 'pkg': 'd/v2'})
        elems.append({'kind': 'func', 'name': 'New%s' % t})                               # v2.NewT, import without alias
        produced.append(t)
    if external and not any(f_[0] == 'Fx' for t_ in types.values() for f_ in t_.get('fields', [])):
        # make sure every configuration with sub-packages has a struct taken apart by FieldsOf with a field nobody selects,
        # of a type whose package the configuration mentions nowhere else
        sname = 'S%d' % nS
        nS += 1
        f1 = new_type()
        types[sname] = {'form': 'fstruct', 'fields': [['Fa', f1], ['Fx', new_type(pkg='c/extra')]], 'pkg': ''}
        funcs.append({'name': 'Make' + sname, 'requires': [], 'provides': sname, 'fallible': False, 'pkg': ''})
        elems.append({'kind': 'func', 'name': 'Make' + sname})
        elems.append({'kind': 'fieldsof', 'type': sname, 'fields': ['Fa']})
        produced.append(f1)
    # sink: consumes everything nobody consumed (wire rejects unused providers)
    consumed = set()
    for f in funcs:
        consumed |= set(f['requires'])
    for e in elems:
        if e['kind'] == 'struct':
            s = e['type']
            allf = types[s]['fields']
            for fn_, ft in allf:
                if e['fields'] == ['*'] or fn_ in e['fields']:
                    consumed.add(ft)
        if e['kind'] == 'fieldsof':
            consumed.add(e['type'])
    loose = [t for t in produced if t not in consumed]
    # a bound implementation whose interface is consumed counts as consumed; keep simple: sink takes all loose ones
    t = 'App'
    types[t] = {'form': 'ptr', 'pkg': ''}
    req = list(dict.fromkeys(loose))
    rng.shuffle(req)
    funcs.append({'name': 'NewApp', 'requires': req, 'provides': t, 'fallible': rng.random() < 0.3, 'pkg': ''})
    elems.append({'kind': 'func', 'name': 'NewApp'})
    haserr = any(f['fallible'] for f in funcs if not f.get('decoy'))
    spec = {'id': sid, 'types': types, 'funcs': funcs, 'elems': elems, 'alias': alias,
            'injector': {'name': 'Init' + sid.capitalize(), 'args': list(args), 'ret': t, 'haserr': haserr}}
    # a second injector in the same wire.go, requesting an intermediate type, built from exactly the elements it needs
    if rng.random() < 0.5:
        ab = abstract(spec)
        sup = {}
        for p in ab['providers']:
            for g in p['provides']:
                for t_ in g:
                    sup[t_] = p
        cands = [f['provides'] for f in funcs if f['name'] != 'NewApp' and not f.get('decoy') and types[f['provides']]['form'] in ('ptr', 'val')]
        bound_impls = [e['impl'] for e in elems if e['kind'] == 'bind' and e['impl'] in cands]
        ext_ifaces = [e['iface'] for e in elems if e['kind'] == 'bind' and types[e['iface']].get('pkg')]
        if ext_ifaces and rng.random() < 0.6:
            cands = cands + ext_ifaces
            bound_impls = ext_ifaces      # prefer an injector whose RESULT is the interface of another package
        if cands:
            # prefer the implementation type of a binding: the second injector then lists its provider WITHOUT the binding
            t2 = rng.choice(bound_impls) if bound_impls and rng.random() < 0.6 else rng.choice(cands)
            need, todo, args2 = [], [t2], []
            while todo:
                x = todo.pop()
                if x not in sup:
                    if x not in args2:
                        args2.append(x)
                    continue
                p = sup[x]
                if p['id'] in [q['id'] for q in need]:
                    continue
                need.append(p)
                todo += p['requires']
            ids = {p['id'] for p in need}
            idx = []
            for i_, e in enumerate(elems):
                k_ = e['kind']
                if (k_ == 'func' and e['name'] in ids) or (k_ == 'value' and 'val:' + e['type'] in ids) or (k_ == 'ifacevalue' and 'ival:' + e['iface'] in ids) \
                        or (k_ == 'struct' and 'struct:' + e['type'] in ids) \
                        or (k_ == 'fieldsof' and any(('fld:%s.%s' % (e['type'], f_)) in ids for f_ in e['fields'])) \
                        or (k_ == 'bind' and (t2 == e['iface'] or any(e['iface'] in p['requires'] for p in need))):
                    idx.append(i_)
            # wire rejects unused providers: a FieldsOf element listing a field nobody needs, or a Bind nobody needs, would be one
            okk = True
            for i_ in idx:
                e = elems[i_]
                if e['kind'] == 'fieldsof' and not all(('fld:%s.%s' % (e['type'], f_)) in ids for f_ in e['fields']):
                    okk = False
                if e['kind'] == 'bind':
                    used_iface = any(e['iface'] in p['requires'] for p in need) or t2 == e['iface']
                    if not used_iface:
                        okk = False
                if e['kind'] == 'struct':
                    okk = okk and True
            if okk and len(idx) >= 2:
                spec['injector2'] = {'name': 'Sub' + sid.capitalize(), 'args': args2, 'ret': t2, 'elems': idx,
                                     'haserr': any(p['fallible'] for p in need)}
    units = []
    used = set()
    for i, e in enumerate(elems):
        if e['kind'] == 'bind':
            j = next(k for k, x in enumerate(elems) if x['kind'] == 'func' and
                     next(f for f in funcs if f['name'] == x['name'])['provides'] == e['impl'])
            units.append([j, i])
            used |= {i, j}
    units += [[i] for i in range(len(elems)) if i not in used]
    spec['layout'] = random_layout(rng, units)
    return spec


def random_layout(rng, units):
    """units: lists of element indices that must stay in one set"""
    units = [list(u) for u in units]
    rng.shuffle(units)
    out = []
    nset = [0]
    i = 0

    def flat(us):
        return [x for u in us for x in u]
    while i < len(units):
        if rng.random() < 0.35 and len(units) - i >= 2:
            k = rng.randint(2, min(3, len(units) - i))
            grp = units[i:i + k]
            i += k
            members = flat(grp)
            if rng.random() < 0.3 and len(grp) >= 2:
                inner = {'set': 'Inner%d' % nset[0], 'members': flat(grp[1:]), 'file': rng.randint(0, 1)}
                nset[0] += 1
                members = flat(grp[:1]) + [inner]
            out.append({'set': 'Set%d' % nset[0], 'members': members, 'file': rng.randint(0, 1)})
            nset[0] += 1
        else:
            out += units[i]
            i += 1
    return out


def set_names(layout):
    out = []
    for x in layout:
        if isinstance(x, dict):
            out.append(x['set'])
            out += set_names(x['members'])
    return out
