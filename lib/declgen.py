"""Emit an instrumented Go package (package main) for a DeclSpec.  Providers are harness functions that report
Enter/Exit through scratch/rt and compute symbolic terms; the kessoku.Inject declaration is the object under test."""
import os
import json

RT_IMPORT = 'scratch/rt'


def texpr(d, t):
    if t == 'ctx':
        return 'context.Context'
    f = d['types'][t]['form']
    if f == 'ptr':
        return '*' + t
    if f == 'ctxval':
        return 'context.Context'
    return t


def zero(d, t):
    if t == 'ctx':
        return 'nil'
    f = d['types'][t]['form']
    if f in ('ptr', 'iface', 'ctxval'):
        return 'nil'
    return t + '{}'


def emit_types(d):
    out = []
    if any(p.get('alias_error') for p in d['providers']):
        out.append('type %s = error\n' % d.get('err_alias', 'Failure'))
    for name, ty in sorted(d['types'].items()):
        form = ty['form']
        if form == 'ctxval':
            # a context.Context value some provider returns (it carries a term like every provided value)
            out.append('func mk_%s(term string) context.Context { return rt.MkCtx(term) }\n' % name)
            continue
        if form == 'iface':
            out.append('type %s interface{ GetTerm() string }\n' % name)
            if ty.get('bare'):
                # an interface some provider returns as such (not through Bind): a hidden implementation
                out.append('type impl%s struct{ term string }\n' % name)
                out.append('func (t *impl%s) GetTerm() string {\n\tif t == nil {\n\t\treturn "nil"\n\t}\n\treturn t.term\n}\n' % name)
                out.append('func mk_%s(term string) %s { return &impl%s{term: term} }\n' % (name, name, name))
            continue
        fields = ty.get('fields', [])
        fl = ''.join('\t%s %s\n' % (fn, texpr(d, ft)) for fn, ft in fields)
        if ty.get('alias'):
            # the type everybody names is an alias declaration (type T = TU): transparent to the type checker
            out.append('type %sU struct {\n\tterm string\n%s}\n\ntype %s = %sU\n' % (name, fl, name, name))
        else:
            out.append('type %s struct {\n\tterm string\n%s}\n' % (name, fl))
        finit = ''.join(', %s: mk_%s(rt.Fld(term, "%s"))' % (fn, ft, fn) for fn, ft in fields)
        if ty.get('is_error'):
            out.append('func (t %s%s) Error() string { return "i implement error, but i am a value" }\n' % ('*' if form == 'ptr' else '', name))
        if form == 'ptr':
            out.append('func (t *%s) GetTerm() string {\n\tif t == nil {\n\t\treturn "nil"\n\t}\n\treturn t.term\n}\n' % name)
            out.append('func mk_%s(term string) *%s { return &%s{term: term%s} }\n' % (name, name, name, finit))
        else:
            out.append('func (t %s) GetTerm() string {\n\tif t.term == "" {\n\t\treturn "zero"\n\t}\n\treturn t.term\n}\n' % name)
            out.append('func mk_%s(term string) %s { return %s{term: term%s} }\n' % (name, name, name, finit))
    return '\n'.join(out)


def emit_provider_fn(d, p):
    params = []
    terms = []
    for i, r in enumerate(p['requires']):
        params.append('a%d %s' % (i, texpr(d, r)))
        terms.append('rt.CtxTerm(a%d)' % i if r == 'ctx' else 'rt.TermOf(a%d)' % i)
    results = [texpr(d, g[0]) for g in p['provides']]
    if p['fallible']:
        results.append(d.get('err_alias', 'Failure') if p.get('alias_error') else 'error')
    rs = ', '.join(results)
    if len(results) > 1:
        rs = '(' + rs + ')'
    body = '\tat := []string{%s}\n' % ', '.join(terms)
    zeros = [zero(d, g[0]) for g in p['provides']]
    if p['fallible']:
        body += '\tif !rt.Enter("%s", at...) {\n\t\treturn %s\n\t}\n' % (p['id'], ', '.join(zeros + ['rt.Err("%s")' % p['id']]))
    else:
        body += '\trt.Enter("%s", at...)\n' % p['id']
    rets = ['mk_%s(rt.Term("%s", %d, at...))' % (g[0], p['id'], k) for k, g in enumerate(p['provides'])]
    if p['fallible']:
        rets.append('nil')
    body += '\treturn %s\n' % ', '.join(rets)
    return 'func %s(%s) %s {\n%s}\n' % (p['id'], ', '.join(params), rs, body)


def provider_expr(d, p):
    if p['kind'] == 'value':
        t = p['provides'][0][0]
        return 'kessoku.Value(mk_%s("%s()#0"))' % (t, p['id'])
    if p['kind'] == 'structexp':
        e = 'kessoku.Struct[%s]()' % texpr(d, p['struct'])
        if p.get('async'):
            e = 'kessoku.Async(%s)' % e        # the field reads stay synchronous; the wrapper must be harmless
        return e
    e = 'kessoku.Provide(%s)' % p['id']
    if p.get('as_value_call') and not p['requires'] and not p['fallible'] and len(p['provides']) == 1:
        # an injected value whose expression is a call: evaluated where the generated code builds the provider
        e = 'kessoku.Value(%s())' % p['id']
    binds = [a for g in p['provides'] for a in g[1:]]
    if p.get('wrap', 'async-bind') == 'bind-async':
        if p['async']:
            e = 'kessoku.Async(%s)' % e
        for b in binds:
            e = 'kessoku.Bind[%s](%s)' % (b, e)
    else:
        for b in binds:
            e = 'kessoku.Bind[%s](%s)' % (b, e)
        if p['async']:
            e = 'kessoku.Async(%s)' % e
    return e


def emit_layout(d, layout, byid, setdecls):
    items = []
    for x in layout:
        if isinstance(x, dict):
            inner = emit_layout(d, x['members'], byid, setdecls)
            e = 'kessoku.Set(\n\t%s,\n)' % ',\n\t'.join(inner)
            if x.get('inline'):
                items.append(e)
            else:
                setdecls.append('var %s_%s = %s\n' % (x['set'], d['id'], e))
                items.append('%s_%s' % (x['set'], d['id']))
        else:
            items.append(provider_expr(d, byid[x]))
    return items


def emit_inject(d):
    byid = {p['id']: p for p in d['providers']}
    setdecls = []
    items = emit_layout(d, d['layout'], byid, setdecls)
    if d.get('multi_name_sets') and len(setdecls) >= 2:
        # var A, B = kessoku.Set(...), kessoku.Set(...)   (one var statement, several names)
        names, values = [], []
        for sd in setdecls:
            n, v = sd[len('var '):].split(' = ', 1)
            names.append(n)
            values.append(v.rstrip('\n'))
        setdecls = ['var %s = %s\n' % (', '.join(names), ', '.join(values))]
    s = ''.join(setdecls)
    s += 'var _ = kessoku.Inject[%s](\n\t"%s",\n\t%s,\n)\n' % (texpr(d, d['ret']), d['injector'], ',\n\t'.join(items))
    return s


def uses_ctx(d):
    return any('ctx' in p.get('requires', []) for p in d['providers']) or bool(d.get('pkg_ctx')) \
        or any(t.get('form') == 'ctxval' for t in d['types'].values())


def emit_decl_file(d, pkg='main', with_types=True, with_inject=True):
    imports = ['"github.com/mazrean/kessoku"', '"%s"' % RT_IMPORT]
    if uses_ctx(d):
        imports.insert(0, '"context"')
    s = 'package %s\n\nimport (\n\t%s\n)\n\n' % (pkg, '\n\t'.join(imports))
    if with_types:
        if d.get('pkg_ctx'):
            s += 'var ctx = context.Background() // a package-level identifier named like the generator\'s favourite local\n\n'
        s += emit_types(d) + '\n'
        for p in d['providers']:
            if p['kind'] == 'fn':
                s += emit_provider_fn(d, p) + '\n'
    if with_inject:
        s += emit_inject(d)
    return s


def write_pkg(d, pkgdir, fname='k.go'):
    os.makedirs(pkgdir, exist_ok=True)
    with open(os.path.join(pkgdir, fname), 'w') as f:
        f.write(emit_decl_file(d))
    with open(os.path.join(pkgdir, 'decl.json'), 'w') as f:
        json.dump(d, f)


def write_files(decls, pkgdir):
    """one declaration per file (k0.go, k1.go, ...) of ONE package; several files per generator invocation"""
    os.makedirs(pkgdir, exist_ok=True)
    for k, d in enumerate(decls):
        with open(os.path.join(pkgdir, 'k%d.go' % k), 'w') as f:
            f.write(emit_decl_file(d))
    with open(os.path.join(pkgdir, 'decls.json'), 'w') as f:
        json.dump(decls, f)


def write_group(decls, pkgdir, fname='k.go'):
    """several declarations in ONE file of one package (shared name pool of one generator invocation)"""
    os.makedirs(pkgdir, exist_ok=True)
    imports = ['"github.com/mazrean/kessoku"', '"%s"' % RT_IMPORT]
    if any(uses_ctx(d) for d in decls):
        imports.insert(0, '"context"')
    s = 'package main\n\nimport (\n\t%s\n)\n\n' % '\n\t'.join(imports)
    if any(d.get('pkg_ctx') for d in decls):
        s += 'var ctx = context.Background()\n\n'
    for d in decls:
        if d.get('shared'):
            continue      # uses the types and provider functions of its sibling declaration
        s += emit_types(d) + '\n'
        for p in d['providers']:
            if p['kind'] == 'fn':
                s += emit_provider_fn(d, p) + '\n'
    for d in decls:
        s += emit_inject(d)
    with open(os.path.join(pkgdir, fname), 'w') as f:
        f.write(s)
    with open(os.path.join(pkgdir, 'decls.json'), 'w') as f:
        json.dump(decls, f)


GOMOD = """module scratch

go 1.24.0

require (
	github.com/mazrean/kessoku v0.0.0
	golang.org/x/sync v0.19.0
)

replace github.com/mazrean/kessoku => %s
"""


def write_module(root, repo='/repo', rt_src='/verif/harness/rt/rt.go'):
    os.makedirs(os.path.join(root, 'rt'), exist_ok=True)
    with open(os.path.join(root, 'go.mod'), 'w') as f:
        f.write(GOMOD % repo)
    with open(os.path.join(repo, 'go.sum')) as f:
        sums = f.read()
    with open(os.path.join(root, 'go.sum'), 'w') as f:
        f.write(sums)
    with open(rt_src) as f:
        src = f.read()
    with open(os.path.join(root, 'rt', 'rt.go'), 'w') as f:
        f.write(src)
