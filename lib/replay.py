"""bin/check replay <file>: re-run the failing case recorded in a replay file against /repo's current working tree."""
import os
import sys
import json
import collections

import pipeline as pl
import declspace as ds
import whitebox as wb
import check_runtime as cr


def main(path):
    r = json.load(open(path))
    prop, sig = r['property'], r['signature']
    rp = r.get('replay') or {}
    print('property %s\nsignature %s\n%s' % (prop, sig, r.get('what', '')))
    if prop in cr.CLAUSES and rp.get('decl'):
        d = rp['decl']
        d.pop('group', None)
        pl.build_tools()
        with pl.Work('replay') as w:
            cli = pl.build_cli(w)
            root = pl.make_scratch(w, [d])
            g = pl.generate_all(cli, root, [d])
            if g[d['id']][0] != 0:
                print('generator now refuses the declaration: %s' % g[d['id']][1][-400:])
                return 2
            if pl.drivergen_all(root, [d['id']])[d['id']][0] != 0:
                print('no driver can be generated for the current output')
                return 2
            prog = wb.extract(os.path.join(root, d['id']), d)
            b = pl.build_drivers(root, [d['id']])
            if b[d['id']]:
                print('generated package does not compile: ' + b[d['id']][:500])
                return 2
            pathsteps = rp.get('path')
            if pathsteps:
                res = pl.run_driver(root, d['id'], path=pathsteps, reps=20, decl=d['id'])
            else:
                res = pl.run_driver(root, d['id'], modes=cr.MODES[prop], maxruns=400, decl=d['id'])
            txt = open(res['trace']).read() if os.path.exists(res['trace']) else ''
            if not txt:
                print('driver produced no trace: rc=%s %s' % (res['rc'], res['stderr'][-500:]))
                return 2
            t = pl.tlc(w, 'InjectorReq', 'InjectorReq.cfg', files={'decls.json': json.dumps([ds.tla_decl(d)]), 'trace.ndjson': txt}, workers=1, timeout=900)
            vj = json.load(open(os.path.join(t['dir'], 'viol.json')))
            evs = collections.defaultdict(list)
            for ln in txt.splitlines():
                e = json.loads(ln)
                evs[e['tr']].append(e)
            seen = collections.Counter()
            for v in vj['viol']:
                rline, parked = 0, []
                for e in evs.get(v['tr'], []):
                    if e['ev'] == 'Return':
                        rline = e['site']
                    if e['ev'] in ('Final', 'Hang'):
                        parked = [p['line'] for p in e['parked']]
                seen[cr.signature(v['clause'], prog, rline, parked)] += 1
            print('generated injector:\n' + open(os.path.join(root, d['id'], 'k_band.go.orig')).read())
            print('path replayed: %s' % (pathsteps or '(all schedules)'))
            print('signatures observed now: %s' % dict(seen))
            if sig in seen:
                print('REPRODUCED %s (%d of the replayed executions)' % (sig, seen[sig]))
                return 1
            print('NOT REPRODUCED on the current tree')
            return 0
    # other engines: show what was recorded; the failing input is in the file itself
    print(json.dumps(rp, indent=1)[:6000])
    print('(replay of this kind of case: re-run `bash /verif/bin/check %s quick`; the recorded input above is self-contained)' % prop)
    return 0


if __name__ == '__main__':
    sys.exit(main(sys.argv[1]))
