"""C15 (atomic installation under crashes and I/O errors) and C16 (every agent installs the full tree where documented).

The real CLI (built from /repo's working tree) runs under strace in a throw-away HOME / cwd; crash points and single
faults are enumerated at system-call granularity with strace's inject (no source hook); every run — baseline, crashed,
faulted, rerun — is a trace of spec/InstallFS.tla, validated by TLC with DestAtomic / Contained evaluated after every
event, FailClean / Complete at the end and the abstract file system compared with the real tree (Snapshot).  The design
of the algorithm (spec/Install.tla) is explored exhaustively by TLC (all crash points, single faults, partial writes).
"""
import os
import re
import sys
import json
import shutil
import hashlib
import subprocess
import collections

import pipeline as pl
import fstrace
from common import Report, seed

SKILL_SRC = os.path.join(pl.REPO, 'internal', 'llmsetup', 'skills', 'kessoku-di')
SKILL_NAME = 'kessoku-di'
ERRNO = {'mkdirat': 'EACCES', 'openat': 'EACCES', 'write': 'ENOSPC', 'fsync': 'EIO', 'close': 'EIO', 'fchmodat': 'EPERM',
         'renameat': 'EIO', 'unlinkat': 'EIO'}


def embedded_tree():
    out = {}
    for dp, dn, fn in os.walk(SKILL_SRC):
        for f in fn:
            p = os.path.join(dp, f)
            rel = os.path.relpath(p, SKILL_SRC)
            b = open(p, 'rb').read()
            out[rel] = hashlib.sha256(b).hexdigest() if b else ''
    return out


def readme_table():
    """agent subcommand -> (project sub path, user sub path), parsed from README.md at check time"""
    txt = open(os.path.join(pl.REPO, 'README.md')).read()
    tab = {}
    for m in re.finditer(r'^- \*\*([^*:]+):\*\*\s+`([^`]+)`\s+\(project\)\s+or\s+`~/([^`]+)`\s+\(user\)', txt, re.M):
        name = m.group(1).strip().lower().replace(' ', '-')
        tab[name] = (m.group(2).strip('/'), m.group(3).strip('/'))
    return tab


class Scenario:
    def __init__(self, w, name, agent, flags, prior, table):
        self.name = name
        self.agent = agent
        self.flags = flags          # 'default' | 'user' | 'path-rel' | 'path-abs' | 'path-user'
        self.prior = prior          # 'absent' | 'older' | 'identical' | 'unrelated' | 'base-is-file'
        self.top = w.path('fs-' + name)
        self.home = os.path.join(self.top, 'home')
        self.cwd = os.path.join(self.top, 'cwd')
        proj, user = table[agent]
        self.args = ['llm-setup', agent]
        if flags == 'default':
            self.base = os.path.join(self.cwd, proj)
        elif flags == 'user':
            self.base = os.path.join(self.home, user)
            self.args.append('--user')
        elif flags == 'path-rel':
            self.base = os.path.join(self.cwd, 'custom', 'dir')
            self.args += ['--path', './custom/dir']
        elif flags == 'path-abs':
            self.base = os.path.join(self.top, 'elsewhere', 'abs')
            self.args += ['--path', self.base]
        elif flags == 'path-user':
            self.base = os.path.join(self.top, 'elsewhere', 'pu')
            self.args += ['--user', '--path', self.base]
        elif flags == 'path-rel-user':
            self.base = os.path.join(self.cwd, 'rel', 'skills')
            self.args += ['--user', '-p', 'rel/skills']
        self.skilldir = os.path.join(self.base, SKILL_NAME)
        self.tree = embedded_tree()
        self.dest = [os.path.join(self.skilldir, rel) for rel in sorted(self.tree)]
        self.new = {os.path.join(self.skilldir, rel): h for rel, h in self.tree.items()}
        self.expectok = prior != 'base-is-file'

    def setup(self):
        shutil.rmtree(self.top, ignore_errors=True)
        shutil.rmtree(self.top + '.lt', ignore_errors=True)
        self.alias = None
        os.makedirs(self.home)
        os.makedirs(self.cwd)
        # bystanders that must never be touched
        open(os.path.join(self.home, 'bystander.txt'), 'w').write('home bystander\n')
        open(os.path.join(self.cwd, 'bystander.txt'), 'w').write('cwd bystander\n')
        if self.prior in ('older', 'identical', 'unrelated', 'older-samesize', 'older-modes', 'older-linked'):
            os.makedirs(self.skilldir, exist_ok=True)
        if self.prior == 'older':
            for rel in self.tree:
                p = os.path.join(self.skilldir, rel)
                os.makedirs(os.path.dirname(p), exist_ok=True)
                open(p, 'w').write('older version of %s\n' % rel)
                os.chmod(p, 0o644)
        elif self.prior == 'older-modes':
            # an older install whose files carry other permission bits
            for k, rel in enumerate(sorted(self.tree)):
                p = os.path.join(self.skilldir, rel)
                os.makedirs(os.path.dirname(p), exist_ok=True)
                open(p, 'w').write('older version of %s\n' % rel)
                os.chmod(p, [0o600, 0o444, 0o755, 0o640][k % 4])
        elif self.prior == 'older-samesize':
            # an earlier release whose files have exactly the length of today's, but other bytes
            for rel in self.tree:
                p = os.path.join(self.skilldir, rel)
                os.makedirs(os.path.dirname(p), exist_ok=True)
                b = bytearray(open(os.path.join(SKILL_SRC, rel), 'rb').read())
                for i in range(0, len(b), 97):
                    b[i] = ord('#') if b[i] != ord('#') else ord('-')
                open(p, 'wb').write(bytes(b))
                os.chmod(p, 0o644)
        elif self.prior == 'identical':
            for rel in self.tree:
                p = os.path.join(self.skilldir, rel)
                os.makedirs(os.path.dirname(p), exist_ok=True)
                shutil.copy(os.path.join(SKILL_SRC, rel), p)
                os.chmod(p, 0o644)
        elif self.prior == 'unrelated':
            open(os.path.join(self.skilldir, 'NOTES.local'), 'w').write('mine\n')
            os.makedirs(os.path.join(self.base, 'other-skill'), exist_ok=True)
            open(os.path.join(self.base, 'other-skill', 'SKILL.md'), 'w').write('another skill\n')
        elif self.prior == 'older-linked':
            # an older install whose SKILL.md is a symbolic link to a file kept elsewhere (a dotfiles manager): the link
            # is replaced by the new regular file, the file it pointed to is nobody's business
            os.makedirs(os.path.join(self.top, 'dotfiles'), exist_ok=True)
            for rel in self.tree:
                p = os.path.join(self.skilldir, rel)
                os.makedirs(os.path.dirname(p), exist_ok=True)
                if rel == 'SKILL.md':
                    tgt = os.path.join(self.top, 'dotfiles', 'SKILL.md')
                    open(tgt, 'w').write('older version of %s kept in dotfiles\n' % rel)
                    os.chmod(tgt, 0o644)
                    os.symlink(tgt, p)
                else:
                    open(p, 'w').write('older version of %s\n' % rel)
                    os.chmod(p, 0o644)
        elif self.prior == 'base-symlink':
            # the base directory is a symbolic link to a directory kept elsewhere (dotfiles layouts)
            target = self.top + '.lt'
            os.makedirs(os.path.join(target, 'other-skill'))
            open(os.path.join(target, 'other-skill', 'SKILL.md'), 'w').write('another skill\n')
            os.makedirs(os.path.dirname(self.base), exist_ok=True)
            os.symlink(target, self.base)
            self.alias = {target: self.base}
        elif self.prior == 'base-is-file':
            os.makedirs(os.path.dirname(self.base), exist_ok=True)
            open(self.base, 'w').write('i am a file\n')

    def annotate(self, ev):
        p = ev['path']
        ev['under'] = p == self.skilldir or p.startswith(self.skilldir + '/')
        ev['ancestor'] = self.skilldir.startswith(p + '/')
        if 'dst' in ev:
            d = ev['dst'] or ''
            ev['dstunder'] = d.startswith(self.skilldir + '/')
        return ev


def run_strace(cli, sc, inject=None, timeout=60):
    """-> (events incl. Start/Exit|Killed/Snapshot, raw calls, end, stdout, stderr)"""
    tr = os.path.join(sc.top + '.trace')
    if os.path.exists(tr):
        os.remove(tr)
    cmd = ['strace', '-f', '-y', '-q', '-xx', '-s', '200000', '-e', 'trace=' + fstrace.TRACE_CALLS, '-o', tr]
    if inject:
        cmd += ['-e', 'inject=' + inject]
    cmd += [cli] + sc.args
    env = dict(os.environ)
    env['HOME'] = sc.home
    env['XDG_CONFIG_HOME'] = os.path.join(sc.top, 'xdgcfg')   # the documented locations are under $HOME whatever XDG says
    env['TMPDIR'] = os.path.join(sc.top, 'tmp')     # inside the observed tree: a file staged there is seen (and is outside the skill directory)
    os.makedirs(env['TMPDIR'], exist_ok=True)
    prior = fstrace.snapshot(sc.top)
    try:
        p = subprocess.run(cmd, cwd=sc.cwd, env=env, capture_output=True, text=True, timeout=timeout)
        so, se = p.stdout, p.stderr
    except subprocess.TimeoutExpired:
        raise pl.ExitTwo('installer under strace timed out: %s' % cmd)
    text = open(tr).read() if os.path.exists(tr) else ''
    events, raw, end = fstrace.parse(text, sc.top, alias=getattr(sc, 'alias', None))
    return events, raw, end, so, se, prior


def make_run(sc, run_id, events, end, so, se, prior, injected, rerun=False):
    start = {'ev': 'Start', 'run': run_id, 'rerun': rerun, 'dest': sc.dest, 'prior': prior, 'new': sc.new, 'allowed': sc.skilldir,
             'expectok': sc.expectok, 'injected': injected, 'agent': sc.agent, 'flags': sc.flags, 'priorstate': sc.prior}
    out = [start] + [sc.annotate(dict(e)) for e in events if e['ev'] != 'Link']
    if end and end[0] == 'exit':
        errmsg = '\n'.join(ln for ln in se.splitlines() if 'strace' not in ln)
        out.append({'ev': 'Exit', 'code': end[1], 'stderr': errmsg[:300]})
    else:
        out.append({'ev': 'Killed'})
    out.append({'ev': 'Snapshot', 'files': fstrace.snapshot(sc.top)})
    return out


def tlc_fs(w, lines, name):
    r = pl.tlc(w, 'InstallFS', 'InstallFS.cfg', files={'fs.ndjson': '\n'.join(json.dumps(e) for e in lines) + '\n'}, workers=1,
               timeout=3000, name=name, java_opts='-Xss256m')
    vp = os.path.join(r['dir'], 'viol.json')
    if r['rc'] != 0 or not os.path.exists(vp):
        raise pl.ExitTwo('InstallFS validation failed (rc=%s): %s %s' % (r['rc'], r['out'][-2500:], r['err'][-600:]))
    vj = json.load(open(vp))
    if vj['lines'] != len(lines):
        raise pl.ExitTwo('InstallFS consumed %d of %d lines' % (vj['lines'], len(lines)))
    st, _ = pl.tlc_stats(r['out'])
    return vj, st


def rel(sc, p):
    return p.replace(sc.top, 'R') if p else p


# ---------------------------------------------------------------------------------------------------------------------

def main_c15(tier):
    rep = Report('C15', tier, 'fault_enumeration')
    quick = tier == 'quick'
    try:
        table = readme_table()
        if len(table) < 5:
            raise pl.ExitTwo('cannot parse the agent table of README.md: %s' % table)
        with pl.Work('C15') as w:
            cli = pl.build_cli(w)
            agents = ['claude-code'] if quick else ['claude-code', 'amp', 'openai-codex']
            priors = ['absent', 'older'] if quick else ['absent', 'older', 'identical']
            lines = []
            points = []
            missed = []
            nruns = 0
            runmeta = {}
            for agent in agents:
                for prior in priors:
                    sc = Scenario(w, '%s-%s' % (agent, prior), agent, 'default' if agent != 'amp' else 'user', prior, table)
                    sc.setup()
                    ev, raw, end, so, se, pr = run_strace(cli, sc)
                    rid = '%s/%s/baseline' % (agent, prior)
                    lines += make_run(sc, rid, ev, end, so, se, pr, False)
                    runmeta[rid] = {'args': sc.args, 'inject': None}
                    nruns += 1
                    if not end or end != ('exit', 0):
                        raise pl.ExitTwo('baseline installation failed: %s %s' % (end, se[-500:]))
                    # calls per kind as the main thread issued them (inside and outside the sandbox)
                    perkind = collections.Counter()
                    text = open(sc.top + '.trace').read()
                    for pid, rest in fstrace.merge_unfinished(text.splitlines()):
                        m = re.match(r'^(\w+)\(', rest)
                        if m:
                            perkind[m.group(1)] += 1
                    inbox = collections.Counter(r['name'] for r in raw if r['path'] and r['path'].startswith(sc.top))
                    for kind in fstrace.MUTATING:
                        if inbox[kind] == 0:
                            continue
                        hit_targets = set()
                        for mode in ('kill', 'fault'):
                            for k in range(1, perkind[kind] + 2):
                                sc.setup()
                                inj = '%s:signal=KILL:when=%d' % (kind, k) if mode == 'kill' else '%s:error=%s:when=%d' % (kind, ERRNO[kind], k)
                                ev, raw2, end2, so2, se2, pr2 = run_strace(cli, sc, inject=inj)
                                nruns += 1
                                # which call was hit?
                                hit = None
                                for r in raw2:
                                    if (mode == 'kill' and not r['executed']) or (mode == 'fault' and r['injected']):
                                        hit = r
                                if mode == 'kill' and (not end2 or end2[0] != 'killed'):
                                    continue   # k beyond the last call of this kind: nothing was injected
                                if hit is None or not hit['path'] or not hit['path'].startswith(sc.top):
                                    continue   # the injection hit a call of the runtime, outside the sandbox
                                rid = '%s/%s/%s:%s#%d' % (agent, prior, mode, kind, k)
                                lines += make_run(sc, rid, ev, end2, so2, se2, pr2, True)
                                runmeta[rid] = {'args': sc.args, 'inject': inj, 'hit': rel(sc, hit['path'])}
                                points.append({'run': rid, 'mode': mode, 'call': kind, 'k': k, 'target': rel(sc, hit['path'])})
                                hit_targets.add((mode, hit['path']))
                                if mode == 'kill':
                                    # a later successful run completes the installation
                                    ev3, raw3, end3, so3, se3, pr3 = run_strace(cli, sc)
                                    nruns += 1
                                    lines += make_run(sc, rid + '/rerun', ev3, end3, so3, se3, pr3, False, rerun=True)
                                    runmeta[rid + '/rerun'] = {'args': sc.args, 'inject': None, 'after': inj}
                        want = {(m_, r['path']) for m_ in ('kill', 'fault') for r in raw if r['name'] == kind and r['path'] and r['path'].startswith(sc.top)}
                        # temp names are random: compare by directory + role
                        def role(p):
                            b = os.path.basename(p)
                            return os.path.dirname(p) + '/' + (b if (p in sc.new or not os.path.dirname(p).startswith(sc.skilldir)) else '.tmp')
                        got = collections.Counter((m_, role(p)) for m_, p in hit_targets)
                        exp = collections.Counter((m_, role(p)) for m_, p in want)
                        for key in exp:
                            if got[key] < min(exp[key], 1):
                                missed.append('%s %s %s' % (kind, key[0], rel(sc, key[1])))
            vj, st = tlc_fs(w, lines, 'fs15')
            groups = collections.defaultdict(list)
            for v in vj['viol']:
                if v['clause'].startswith('FS.conform'):
                    rep.problem('abstract file system of InstallFS.tla differs from the real tree after run %s at %s' % (v['run'], v['detail'][-80:]))
                    continue
                if not (v['clause'].startswith('C15') or v['clause'] in ('C16.complete',)):
                    continue
                run = v['run']
                kind = run.split('/')[2] if run.count('/') >= 2 else run
                kind = re.sub(r'#\d+', '', kind)
                what = re.sub(r'\.tmp-\d+', '.tmp-N', v['detail'])
                what = re.sub(r'^.*/fs-[^/]+/', '', what)
                sig = '%s|%s|%s%s' % (v['clause'], kind, 'rerun|' if run.endswith('/rerun') else '', what.split(': ')[0] if ': ' in what else os.path.basename(what))
                groups[sig].append(v)
            for sig, occ in sorted(groups.items()):
                v = occ[0]
                rep.found(sig, '%s: %d state(s)/run(s); first: run %s, %s' % (sig, len(occ), v['run'], v['detail'][-160:]),
                          {'run': v['run'], 'how': runmeta.get(v['run']), 'violation': v})
            # design level: exhaustive exploration of the algorithm with crashes, faults and partial writes
            dres = design_model(w, rep, quick)
            dres['binding'] = bind_design(w, rep, lines, 'instconf15', bool(groups))
            rep.cov.update({
                'evaluations': nruns, 'distinct_nontrivial': len(points),
                'rule': 'one evaluation = one run of the real installer under strace; non-trivial distinct = distinct (crash|fault, system call, '
                        'ordinal) injection points that hit a call inside the installation tree',
                'samples': points[:3] + points[-2:], 'injection_points': len(points), 'crash_points': len([p for p in points if p['mode'] == 'kill']),
                'fault_points': len([p for p in points if p['mode'] == 'fault']), 'missed_points': missed,
                'agents': agents, 'prior_states': priors, 'trace_events_validated_by_TLC': len(lines), 'states': st,
                'design_model': dres, 'exhaustive': not missed,
            })
            rep.assumptions += ['crash = SIGKILL at system-call entry (process death; not power loss: no claim about durability)',
                                'single fault per run; errno per call: %s' % ERRNO,
                                'partial writes cannot be injected from outside; they are covered only in Install.tla']
            if missed:
                rep.notes.append('injection points not hit (thread migration): %s' % missed[:10])
    except pl.ExitTwo as e:
        rep.problem(str(e))
    except Exception:
        import traceback
        rep.problem('internal error: ' + traceback.format_exc()[-3000:])
    return rep.finish()


def abstract_runs(lines):
    """Projection of InstallFS run traces on the alphabet of Install.tla (see spec/InstallTrace.tla).  Pure
    classification: destination paths -> their relative name, other files under the skill directory -> temp files,
    contents -> new / old / torn by hash.  -> (meta, abstract lines, [(first abstract line, last, run id)])"""
    out, spans = [], []
    st = {}
    files, dirs = None, None

    def absfile(p, rec):
        if rec is None:
            return {'content': 'absent', 'mode': ''}
        h = rec['content']
        if h == st['new'][p]:
            c = 'new'
        elif p in st['orig'] and st['orig'][p]['content'] == h:
            c = 'old'
        else:
            c = 'torn'
        return {'content': c, 'mode': rec['mode']}

    def under(p):
        return p.startswith(st['skilldir'] + '/')

    def strays(tree):
        return len([p for p in tree if under(p) and p not in st['rel'] and p not in st['orig']])

    for e in lines:
        k = e['ev']
        a = None
        if k == 'Start':
            sk = e['allowed']
            relmap = {p: os.path.relpath(p, sk) for p in e['dest']}
            if not e.get('rerun'):
                st = {'skilldir': sk, 'rel': relmap, 'new': e['new'], 'orig': e['prior'], 'tmps': set()}
            else:
                st['tmps'] = set()
            if files is None:
                files = sorted(relmap.values())
                dirs = {r: (os.path.dirname(r) or '.') for r in files}
            a = {'ev': 'Start', 'run': e['run'], 'rerun': bool(e.get('rerun')),
                 'prior': {relmap[p]: absfile(p, e['prior'].get(p)) for p in e['dest']}, 'ntmp': strays(e['prior'])}
            spans.append([len(out) + 1, None, e['run']])
        elif k == 'Mkdir':
            a = {'ev': 'Mkdir', 'ok': e['ok'], 'fatal': (not e['ok']) and e.get('err') != 'EEXIST', 'injected': bool(e.get('injected'))}
        elif k == 'Open':
            p = e['path']
            if not (e['creat'] or e['wr']):
                a = None
            elif p in st['rel']:
                a = {'ev': 'DestOpen', 'dst': st['rel'][p]}
            elif under(p):
                if e['ok']:
                    st['tmps'].add(p)
                a = {'ev': 'Create', 'path': p, 'reldir': os.path.relpath(os.path.dirname(p), st['skilldir']), 'mode': e['mode'],
                     'excl': e['excl'], 'ok': e['ok'], 'injected': bool(e.get('injected'))}
            else:
                a = {'ev': 'Other', 'path': p}
        elif k == 'Write':
            d = os.path.dirname(e['path'])
            full = e['ok'] and any(e['cum'] == h for q, h in st['new'].items() if os.path.dirname(q) == d)
            a = {'ev': 'Write', 'path': e['path'], 'full': bool(full), 'ok': e['ok'], 'injected': bool(e.get('injected'))}
        elif k in ('Fsync', 'Close'):
            if e['path'] in st['tmps']:
                a = {'ev': 'Sync' if k == 'Fsync' else 'Close', 'path': e['path'], 'ok': e['ok'], 'injected': bool(e.get('injected'))}
            elif k == 'Fsync':
                a = {'ev': 'Other', 'path': e['path']}
        elif k == 'Chmod':
            a = {'ev': 'Chmod', 'path': e['path'], 'mode': e['mode'], 'ok': e['ok'], 'injected': bool(e.get('injected'))}
        elif k == 'Rename':
            a = {'ev': 'Rename', 'path': e['path'], 'dst': st['rel'].get(e.get('dst'), '?'), 'ok': e['ok'], 'injected': bool(e.get('injected'))}
        elif k == 'Unlink':
            a = {'ev': 'Unlink', 'path': e['path'], 'ok': e['ok']}
        elif k == 'Truncate':
            a = {'ev': 'Other', 'path': e['path']}
        elif k == 'Exit':
            a = {'ev': 'Exit', 'code': e['code']}
        elif k == 'Killed':
            a = {'ev': 'Killed'}
        elif k == 'Snapshot':
            a = {'ev': 'Snapshot', 'dest': {r: absfile(p, e['files'].get(p)) for p, r in st['rel'].items()}, 'ntmp': strays(e['files'])}
            spans[-1][1] = len(out) + 1
        if a is not None:
            out.append(a)
    return {'files': files or [], 'dir': dirs or {}}, out, spans


def install_conformance(w, lines, name):
    """Every recorded run must be a behaviour of Install.tla (InstallTrace.tla).  A run that is not is dropped and the
    rest is validated again (at most 8 times).  -> {'runs', 'conforming', 'rejected': [...], 'invariants': text|None}"""
    meta, alines, spans = abstract_runs(lines)
    total = len(spans)
    rejected = []
    inv = None
    states = 0
    for attempt in range(9):
        if not alines:
            break
        r = pl.tlc(w, 'InstallTrace', 'InstallTrace.cfg', workers=1, timeout=3000, name='%s-%d' % (name, attempt), java_opts='-Xss256m',
                   files={'inst.ndjson': '\n'.join(json.dumps(e) for e in alines) + '\n', 'inst_meta.json': json.dumps(meta)})
        states = pl.tlc_stats(r['out'])[1]
        if 'is violated' in r['out']:
            m = re.search(r'Invariant (\w+) is violated', r['out'])
            inv = 'invariant %s of Install.tla is violated on a real run: %s' % (m.group(1) if m else '?', r['out'][-1800:])
            break
        op = os.path.join(r['dir'], 'inst_out.json')
        if not os.path.exists(op):
            raise pl.ExitTwo('InstallTrace validation failed (rc=%s): %s %s' % (r['rc'], r['out'][-2500:], r['err'][-600:]))
        o = json.load(open(op))
        if o['reached'] >= o['lines'] + 1:
            break
        # the run that contains the first line nobody could consume
        bad = [sp for sp in spans if sp[0] <= o['reached'] <= (sp[1] or 10 ** 9)]
        if not bad:
            raise pl.ExitTwo('InstallTrace stopped at line %d outside every run' % o['reached'])
        b = bad[0]
        rejected.append({'run': b[2], 'event': alines[o['reached'] - 1], 'event_index_in_run': o['reached'] - b[0]})
        # drop the run (and the rerun that follows it, which starts from its end state)
        drop = [b]
        nxt = [sp for sp in spans if sp[0] == (b[1] or 0) + 1 and sp[2].endswith('/rerun')]
        drop += nxt
        lo, hi = drop[0][0], drop[-1][1]
        n = hi - lo + 1
        alines = alines[: lo - 1] + alines[hi:]
        spans = [sp for sp in spans if sp not in drop]
        for sp in spans:
            if sp[0] > hi:
                sp[0] -= n
                sp[1] -= n
    return {'runs': total, 'conforming': total - len(rejected) if len(rejected) < 8 else None, 'rejected': rejected[:8], 'invariants': inv,
            'states': states}


def bind_design(w, rep, lines, name, violations_found):
    """Is Install.tla still a model of this tree?  (It decides nothing by itself: alarms come from InstallFS.tla.)"""
    conf = install_conformance(w, lines, name)
    if conf['invariants'] and not violations_found:
        rep.problem('Install.tla and InstallFS.tla disagree: ' + conf['invariants'])
    if conf['rejected']:
        rep.notes.append('%d recorded run(s) of the real installer are not behaviours of Install.tla (first: run %s at its event %d, %s): the '
                         'design-level exploration of Install.tla does not speak for this tree; the verdict rests on InstallFS.tla alone'
                         % (len(conf['rejected']), conf['rejected'][0]['run'], conf['rejected'][0]['event_index_in_run'],
                            json.dumps(conf['rejected'][0]['event'])[:200]))
    conf['bound'] = not conf['rejected'] and not conf['invariants']
    return conf


def design_model(w, rep, quick):
    r = pl.tlc(w, 'InstallMC', 'Install.cfg' if quick else 'InstallBig.cfg', workers=4, timeout=3000, name='installdesign')
    ok = 'Model checking completed. No error has been found' in r['out']
    gen, dist = pl.tlc_stats(r['out'])
    if not ok:
        rep.notes.append('Install.tla (design model) reports: %s' % r['out'][-1500:])
        rep.problem('the implementation-shaped design model Install.tla violates its own invariants; see notes')
    return {'states': dist, 'transitions': gen, 'ok': ok}


# ---------------------------------------------------------------------------------------------------------------------

def main_c16(tier):
    rep = Report('C16', tier, 'exploration')
    quick = tier == 'quick'
    try:
        table = readme_table()
        with pl.Work('C16') as w:
            cli = pl.build_cli(w)
            # the CLI offers exactly the documented agents
            p = pl.run([cli, 'llm-setup', '--help'], timeout=60)
            offered = re.findall(r'^\s+llm-setup ([a-z0-9-]+)\s', p.stdout, re.M)
            cnt = collections.Counter(offered)
            if set(offered) != set(table) or any(c != 1 for c in cnt.values()):
                rep.found('C16.agents|help', 'llm-setup --help offers %s, README documents %s' % (sorted(cnt.items()), sorted(table)),
                          {'help': p.stdout})
            lines = []
            nruns = 0
            meta = {}
            flagsets = ['default', 'user', 'path-rel', 'path-abs', 'path-user', 'path-rel-user']
            priors = ['absent', 'older', 'older-samesize', 'older-modes', 'older-linked', 'unrelated', 'base-is-file', 'base-symlink']
            scs = []
            for agent in sorted(table):
                for fl in flagsets:
                    for pr in priors:
                        scs.append((agent, fl, pr))

            def one(t):
                agent, fl, pr = t
                sc = Scenario(w, '%s-%s-%s' % (agent, fl, pr), agent, fl, pr, table)
                sc.setup()
                ev, raw, end, so, se, prior = run_strace(cli, sc)
                rid = '%s/%s/%s' % (agent, fl, pr)
                out = make_run(sc, rid, ev, end, so, se, prior, False)
                said = ''
                m = re.search(r'Skills installed to: (.*)', so)
                if m:
                    said = m.group(1).strip()
                return rid, out, {'args': sc.args, 'stdout': so[-200:], 'stderr': se[-300:], 'said': said, 'skilldir': sc.skilldir, 'expectok': sc.expectok}
            for rid, out, m in pl.pmap(one, scs, workers=8):
                lines += out
                meta[rid] = m
                nruns += 1
                if m['expectok'] and m['said'] != m['skilldir']:
                    rep.found('C16.reported|%s' % rid.split('/')[1], 'run %s reports installation to %r, documented location is %r' % (rid, m['said'], m['skilldir']), m)
            vj, st = tlc_fs(w, lines, 'fs16')
            groups = collections.defaultdict(list)
            for v in vj['viol']:
                if v['clause'].startswith('FS.conform'):
                    rep.problem('abstract file system differs from the real tree after run %s at %s' % (v['run'], v['detail'][-80:]))
                    continue
                if not v['clause'].startswith('C16'):
                    continue
                agent, fl, pr = v['run'].split('/')
                what = re.sub(r'\.tmp-\d+', '.tmp-N', os.path.basename(v['detail']))
                groups['%s|%s|%s|%s' % (v['clause'], fl, pr, what)].append(v)
            for sig, occ in sorted(groups.items()):
                v = occ[0]
                rep.found(sig, '%s: %d run(s) (agents %s); first: %s %s' % (sig, len(occ), sorted({o['run'].split('/')[0] for o in occ})[:9], v['run'], v['detail'][-200:]),
                          {'run': v['run'], 'how': meta.get(v['run']), 'violation': v})
            binding = bind_design(w, rep, lines, 'instconf16', bool(groups))
            rep.cov.update({
                'install_tla_binding': binding,
                'evaluations': nruns, 'distinct_nontrivial': nruns,
                'rule': 'one evaluation = one real CLI run under strace for one (agent, flags, prior state); all combinations enumerated',
                'samples': [{'run': scs[0], 'how': meta['%s/%s/%s' % scs[0]]}, {'run': scs[-1], 'how': meta['%s/%s/%s' % scs[-1]]}],
                'agents': sorted(table), 'flag_sets': flagsets, 'prior_states': priors, 'documented_table': table,
                'trace_events_validated_by_TLC': len(lines), 'states': st, 'help_offers': offered, 'exhaustive': True,
            })
            rep.assumptions += ['documented locations are read from README.md at check time', 'the embedded tree is compared with internal/llmsetup/skills/kessoku-di on disk']
    except pl.ExitTwo as e:
        rep.problem(str(e))
    except Exception:
        import traceback
        rep.problem('internal error: ' + traceback.format_exc()[-3000:])
    return rep.finish()


if __name__ == '__main__':
    prop = sys.argv[1]
    tier = sys.argv[2] if len(sys.argv) > 2 else 'quick'
    sys.exit(main_c15(tier) if prop == 'C15' else main_c16(tier))
