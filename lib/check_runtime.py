"""Checks for the run-time properties of generated injectors: C01, C02, C03, C05, C06, C07, C08.

Pipeline (DESIGN.md 3.1-3.3): declarations (exhaustive small scope + seeded random + metamorphic variants) ->
real generator (CLI built from /repo's working tree) -> instrumented package built with -race ->
  B2: stateless DFS over all gate-level schedules of the REAL injector, every execution validated by TLC against
      InjectorReq.tla (alarm-raising path, independent of the extractor);
  B1: program extraction, exhaustive interleavings with TLC on Injector.tla; a violated clause found only in the model
      is re-driven on the real code (more repetitions / schedules) and reported only if it reproduces.
"""
import os
import re
import sys
import json
import random
import collections

import pipeline as pl
import declspace as ds
import whitebox as wb
from common import Report, seed, load_known

CLAUSES = {
    'C01': ['C01.order', 'C01.value', 'C01.race'],
    'C02': ['C02.value', 'C02.once', 'C02.unneeded'],
    'C03': ['C03.deadlock', 'C03.join', 'C03.panic'],
    'C05': ['C05.overlap'],
    'C06': ['C06.nil', 'C06.subst', 'C06.dependent', 'C06.hang', 'C06.panic'],
    'C07': ['C07.hang', 'C07.partial', 'C07.panic'],
    'C08': ['C08.stuck'],
}
MODES = {
    'C01': 'none', 'C02': 'none', 'C03': 'none', 'C05': 'none',
    'C06': 'fail', 'C07': 'cancel,failcancel', 'C08': 'none,fail,cancel,failcancel',
}


# ---------------------------------------------------------------------------------------------------------------------
# batches

def variants(rng, d, k):
    """Metamorphic variants of one declaration (C02): other Async subset, other Set grouping / declaration order."""
    out = []
    for j in range(k):
        v = ds.rename(d, '%sv%d' % (d['id'], j))
        for p in v['providers']:
            if p['kind'] == 'fn':
                p['async'] = rng.random() < 0.5
                p['wrap'] = rng.choice(['async-bind', 'bind-async'])
        v['layout'] = ds.random_layout(rng, [p['id'] for p in v['providers']])
        v['variant_of'] = d['id']
        out.append(v)
    return out


def batch(prop, tier, sd):
    rng = random.Random(sd * 7919 + sum(map(ord, prop)))
    out = []
    quick = tier == 'quick'
    if prop in ('C01', 'C02', 'C03'):
        ex = ds.exhaustive_small(3, with_fallible=False)
        if quick:
            # all n<=2 and a seeded third of n=3
            ex = [d for d in ex if len(d['providers']) <= 2] + rng.sample([d for d in ex if len(d['providers']) == 3], 30)
        out += ex
        nrand = 130 if quick else 360
        for i in range(nrand):
            out.append(ds.random_decl(rng, 'r%04d' % i, nmin=3, nmax=8, p_fallible=0.0, p_async=rng.choice([0.45, 0.6, 0.8]),
                                      zero_in_async=rng.choice([0, 0, 1, 2, 3])))
        for i in range(25 if quick else 100):
            out.append(ds.tree_decl(rng, 't%04d' % i, n=rng.randint(4, 7)))
        for i in range(4 if quick else 12):
            out.append(ds.wide_decl(rng, 'w%04d' % i, width=(rng.randint(11, 14) if i % 4 else rng.randint(8, 10)), sync_root=(i % 3 != 2)))
        # the requested type is a later result of a multi-result provider / a field of an expanded struct
        mr = []
        for d in [x for x in out if x['id'].startswith('r')]:
            mr += ds.multi_ret_variants(d) + ds.field_ret_variants(d)
        out += rng.sample(mr, min(len(mr), 8 if quick else 60))
        # a provided value that is itself a context.Context (returned by a provider, consumed by others)
        cv = []
        for d in [x for x in out if x['id'][0] in 'rt' and 'variant_of' not in x]:
            cv += ds.ctxval_variants(d)
        out += rng.sample(cv, min(len(cv), 6 if quick else 40))
        if prop == 'C02':
            base = [d for d in out if d['id'].startswith('r')][: (10 if quick else 60)]
            for d in base:
                out += variants(rng, d, 2 if quick else 4)
        if not quick:
            for k, edges in enumerate(ds.all_dags(4)):
                if k % 2 == (sd % 2):
                    a = {i for i in range(4) if rng.random() < 0.5}
                    out.append(ds.mk_decl('y%04d' % k, 4, edges, 3, a, ()))
    elif prop == 'C05':
        # declarations with >= 2 needed input-free Async providers
        n = 0
        tries = 0
        want = 60 if quick else 500
        while n < want and tries < want * 40:
            tries += 1
            d = ds.random_decl(rng, 'z%04d' % n, nmin=3, nmax=7, p_fallible=rng.choice([0.0, 0.3, 0.5]), p_async=rng.choice([0.45, 0.7]),
                               zero_in_async=rng.choice([2, 2, 3, 4]), constructs=rng.random() < 0.7)
            if not ds.accepts(d):
                continue
            byid = {p['id']: p for p in ds.eff_providers(d)}
            zia = [p for p in ds.needed(d) if byid[p]['kind'] == 'fn' and byid[p]['async'] and not byid[p]['requires']]
            if len(zia) >= 2:
                out.append(d)
                n += 1
        for i in range(40 if quick else 300):
            out.append(ds.sources_decl(rng, 's%04d' % i, p_fallible=rng.choice([0.0, 0.5, 0.8]), nsync=(0 if i % 4 == 1 else None)))
        # many input-free Async providers at once (the scheduler's queues and pool counts beyond small sizes)
        for i in range(14 if quick else 36):
            out.append(ds.wide_decl(rng, 'w%04d' % i, width=rng.randint(8, 11), sync_root=(i % 2 == 0), p_root=rng.choice([0.0, 0.0, 0.15, 0.3]),
                                    njoin=rng.choice([0, 2, 3, 4, 5]), nleaf=rng.choice([0, 1, 2, 3])))
        # the same in declaration order: k sources, joins of consecutive pairs, synchronous leaves, one consumer of everything
        for k, (wd, nj, nl) in enumerate([(8, 3, 2), (9, 2, 1), (10, 4, 2)] if quick else [(a_, b_, c_) for a_ in (8, 9, 10) for b_ in (2, 3, 4) for c_ in (1, 2)]):
            d_ = ds.wide_decl(rng, 'o%04d' % k, width=wd, sync_root=True, p_root=0.0, njoin=nj, nleaf=nl, ordered=True)
            for p_ in d_['providers'][1:wd + 1]:
                p_['async'] = True
                p_['requires'] = []
            out.append(d_)
        # exhaustive: n<=3 (quick) / n<=4 (thorough) shapes in which >=2 sources are async and needed
        for nn in [3, 4]:
            for k, edges in enumerate(ds.all_dags(nn)):
                srcs = [i for i in range(nn) if not any(e[1] == i for e in edges)]
                for a in ds.subsets(range(nn)):
                    if len([s for s in srcs if s in a]) < 2:
                        continue
                    fall = {i for i in range(nn) if rng.random() < 0.5}
                    d = ds.mk_decl('e%d_%03d_%s' % (nn, k, ''.join(map(str, sorted(a)))), nn, edges, nn - 1, a, fall)
                    byid = {p['id']: p for p in d['providers']}
                    zia = [p for p in ds.needed(d) if byid[p]['async'] and not byid[p]['requires']]
                    if len(zia) >= 2:
                        if nn == 4 and rng.random() < (0.9 if quick else 0.5):
                            continue
                        d['layout'] = rng.sample(d['layout'], len(d['layout']))
                        out.append(d)
    else:  # C06, C07, C08: fault modes
        for i in range(18 if quick else 60):
            out.append(ds.sources_decl(rng, 's%04d' % i, p_fallible=0.6, nsync=(0 if i % 2 == 1 else None)))
        for i in range(2 if quick else 6):
            out.append(ds.wide_decl(rng, 'w%04d' % i, width=rng.randint(10, 13), p_fallible=0.3, sync_root=(i % 2 == 0)))
        ex = ds.exhaustive_small(3, with_fallible=False)
        ex = [d for d in ex if any(p['async'] for p in d['providers'])]
        pick = rng.sample(ex, 24 if quick else len(ex))
        for d in pick:
            for p in d['providers']:
                p['fallible'] = rng.random() < (0.6 if prop != 'C07' else 0.35)
        out += pick
        # every DAG on 4 providers (a seeded half in quick), sources mostly Async: which pool runs on the caller's goroutine
        # and which providers can fail there is decided by shapes this small
        dags4 = list(ds.all_dags(4))
        for k, edges in enumerate(dags4 if not quick else rng.sample(dags4, 32)):
            for rep_ in range(1 if quick else 2):
                srcs = {i for i in range(4) if not any(e[1] == i for e in edges)}
                a = {i for i in range(4) if rng.random() < (0.85 if i in srcs else 0.5)}
                fl = {i for i in range(4) if rng.random() < (0.5 if prop != 'C07' else 0.3)}
                if a:
                    out.append(ds.mk_decl('q%03d_%d' % (k, rep_), 4, edges, 3, a, fl))
        nrand = 40 if quick else 160
        for i in range(nrand):
            d = ds.random_decl(rng, 'f%04d' % i, nmin=3, nmax=6 if quick else 7,
                               p_fallible=0.5 if prop != 'C07' else 0.3, p_async=0.6,
                               zero_in_async=rng.choice([0, 1, 2, 2]), constructs=(i % 2 == 0))
            if i % 2 == 1:
                d['pkg_ctx'] = True     # the user's package declares `ctx` at package level: the injector's parameter is ctx0
            if i % 3 == 0:
                # a provider that takes the context itself (the injector then has a user-supplied ctx parameter)
                fns = [p for p in d['providers'] if p['kind'] == 'fn' and 'ctx' not in p['requires']]
                if fns:
                    p = rng.choice(fns)
                    p['requires'] = list(p['requires'])
                    p['requires'].insert(rng.randint(0, len(p['requires'])), 'ctx')
            out.append(d)
    if prop in ('C06', 'C07', 'C08'):
        # providers with an interface binding: often Async INSIDE the Bind (kessoku.Bind[I](kessoku.Async(kessoku.Provide(f)))) and fallible
        for d_ in out:
            for p_ in d_['providers']:
                if p_['kind'] == 'fn' and any(len(g_) > 1 for g_ in p_['provides']) and rng.random() < 0.6:
                    p_['wrap'] = 'bind-async'
                    p_['async'] = True
                    p_['fallible'] = rng.random() < 0.7
    out = [d for d in out if ds.accepts(d)]
    if prop in ('C06', 'C07', 'C08'):
        # a third of ALL fault-mode packages declare `ctx` at package level (the injector's parameter is then ctx0)
        for k_, d_ in enumerate(out):
            if k_ % 3 == 2:
                d_['pkg_ctx'] = True
    # several injectors in one file of one package (one generator invocation, one shared name pool)
    if prop in ('C01', 'C02', 'C03', 'C06', 'C08'):
        ng = 6 if quick else 40
        pool = [d for d in out if d['id'][0] in 'rf' and 'variant_of' not in d]
        for g in range(ng):
            if len(pool) < 3:
                break
            members = [pool.pop(rng.randrange(len(pool))) for _ in range(rng.choice([2, 2, 3]))]
            out += ds.make_group('g%03d' % g, members)
        # two declarations of one file that share their provider functions under different wrappers
        for g in range(4 if quick else 30):
            if not pool:
                break
            out += ds.shared_group(rng, 'h%03d' % g, pool.pop(rng.randrange(len(pool))))
    # unique ids
    seen = set()
    res = []
    for d in out:
        if d['id'] in seen:
            continue
        seen.add(d['id'])
        res.append(d)
    return res


# ---------------------------------------------------------------------------------------------------------------------
# signatures

def site(prog, line):
    if not line:
        return '-'
    return prog['sites'].get(str(line), 'line%d?' % line)


def signature(clause, prog, rline, parked_lines):
    parts = [clause]
    if clause in ('C07.hang', 'C07.partial', 'C06.hang'):
        parts.append('haserr=%s' % str(bool(prog.get('haserr'))).lower())
    if clause in ('C06.subst', 'C06.nil', 'C07.partial', 'C08.stuck', 'C02.value', 'C03.join'):
        parts.append('ret=' + site(prog, rline))
    if clause in ('C08.stuck', 'C07.hang', 'C06.hang', 'C03.deadlock', 'C03.join'):
        ps = sorted({site(prog, l) for l in parked_lines}) or ['-']
        parts.append('parked=' + '+'.join(ps))
    return '|'.join(parts)


# ---------------------------------------------------------------------------------------------------------------------


def real_signatures(w, cli, decls, prop, clauses, modes, sd, maxruns, tag):
    """Generate, build and execute the given declarations for real; -> {signature: (decl, events, decl dict)}"""
    root = pl.make_scratch(w, decls, 'repro-' + tag)
    gen = pl.generate_all(cli, root, decls)
    ok = [d['id'] for d in decls if gen[d['id']][0] == 0]
    dg = pl.drivergen_all(root, ok)
    ok = [i for i in ok if dg[i][0] == 0]
    byid = {d['id']: d for d in decls}
    progs = {i: wb.extract(os.path.join(root, i), byid[i]) for i in ok}
    built = pl.build_drivers(root, ok, race=True)
    ok = [i for i in ok if not built[i]]
    out = {}
    for i in ok:
        for g in (None, 2):
            r = pl.run_driver(root, i, modes=modes, maxruns=maxruns, seed=sd, gomaxprocs=g, timeout=900, decl=i)
            if not os.path.exists(r['trace']):
                continue
            txt = open(r['trace']).read()
            if not txt.strip():
                continue
            t = pl.tlc(w, 'InjectorReq', 'InjectorReq.cfg', files={'decls.json': json.dumps([ds.tla_decl(byid[i])]), 'trace.ndjson': txt},
                       workers=1, timeout=1800, name='repro-%s-%s-%s' % (tag, i, g))
            vp = os.path.join(t['dir'], 'viol.json')
            if not os.path.exists(vp):
                continue
            evs = collections.defaultdict(list)
            for ln in txt.splitlines():
                e = json.loads(ln)
                evs[e['tr']].append(e)
            for v in json.load(open(vp))['viol']:
                if v['clause'] not in clauses:
                    continue
                rline, parked = 0, []
                for e in evs.get(v['tr'], []):
                    if e['ev'] == 'Return':
                        rline = e['site']
                    if e['ev'] in ('Final', 'Hang'):
                        parked = [p['line'] for p in e['parked']]
                sg = signature(v['clause'], progs[i], rline, parked)
                failing = next((e['cls'][5:] for e in evs.get(v['tr'], []) if e['ev'] == 'Return' and str(e.get('cls', '')).startswith('prov:')), None)
                if sg not in out:
                    src = ''
                    try:
                        src = open(os.path.join(root, i, 'k_band.go.orig')).read()
                    except OSError:
                        pass
                    path = next((e['path'] for e in evs[v['tr']] if e['ev'] == 'End'), None)
                    out[sg] = {'decl': byid[i], 'generated': src, 'path': path, 'events': evs[v['tr']][:200], 'occurrences': []}
                if [i, failing] not in out[sg]['occurrences']:
                    out[sg]['occurrences'].append([i, failing])
                    if len(out[sg]['occurrences']) <= 40:
                        out[sg].setdefault('by_decl', {})['%s|%s' % (i, failing)] = {'decl': byid[i], 'path': next((e['path'] for e in evs[v['tr']] if e['ev'] == 'End'), None)}
    return out, ok


def main(prop, tier):
    sd = seed()
    rep = Report(prop, tier, 'model_checking')
    clauses = CLAUSES[prop]
    modes = MODES[prop]
    try:
        run(prop, tier, sd, rep, clauses, modes)
    except pl.ExitTwo as e:
        rep.problem(str(e))
    except Exception:  # a crash of the machinery is never a verdict
        import traceback
        rep.problem('internal error: ' + traceback.format_exc()[-3000:])
    return rep.finish()


def run(prop, tier, sd, rep, clauses, modes):
    quick = tier == 'quick'
    decls = batch(prop, tier, sd)
    byid = {d['id']: d for d in decls}
    pl.build_tools()
    with pl.Work(prop) as w:
        cli = pl.build_cli(w)
        maxruns = int(os.environ.get('VERIF_MAXRUNS', '150' if quick else '600'))
        opn, _ = load_known()
        agg = {'ok': [], 'progs': {}, 'gen_fail': {}, 'comp_fail': {}, 'dg_fail': {}, 'unmodelled': {}, 'mstates': 0, 'mtrans': 0, 'nlines': 0,
               'nexec': 0, 'exhaustive_progs': 0, 'real_sigs': collections.Counter(), 'model_sigs': collections.Counter(), 'wt_ok': 0, 'wt_states': 0,
               'req_states': 0, 'ntraces': 0, 'nmodelled': 0, 'sample': None, 'nontrivial': 0}
        all_decls = decls
        byid_all = byid
        slice_size = 400 if quick else 120
        slices = [all_decls[i:i + slice_size] for i in range(0, len(all_decls), slice_size)]
        # members of one multi-declaration package must stay in one slice
        grouped = [d for d in all_decls if d.get('group')]
        if grouped:
            slices = [[d for d in sl if not d.get('group')] for sl in slices]
            slices = [sl for sl in slices if sl]
            slices.append(grouped)
        real_sig_names = set()

        def do_slice(decls, sk):
            pl.trim_gocache()     # sequential point: no build of this process is running
            byid = {d['id']: d for d in decls}
            root = pl.make_scratch(w, decls, 'scratch%d' % sk)
            gen = pl.generate_all(cli, root, decls)
            gen_fail = {i: e for i, (rc, e) in gen.items() if rc != 0}
            ok = [d['id'] for d in decls if d['id'] not in gen_fail]
            pkg = {d['id']: pl.pkg_of(d) for d in decls}
            dgp = pl.drivergen_all(root, sorted({pkg[i] for i in ok}))
            dg_fail = {i: dgp[pkg[i]][1] for i in ok if dgp[pkg[i]][0] != 0}
            ok = [i for i in ok if i not in dg_fail]
            progs = {}
            for i in ok:
                progs[i] = wb.extract(os.path.join(root, pkg[i]), byid[i])
            builtp = pl.build_drivers(root, sorted({pkg[i] for i in ok}), race=True)
            comp_fail = {i: builtp[pkg[i]] for i in ok if builtp[pkg[i]]}
            harness_broke = {i: e for i, e in comp_fail.items() if 'verif_' in e or re.search(r'/k\.go:\d+', e) or '/main.go:' in e}
            if harness_broke:
                raise pl.ExitTwo('the harness\'s own instrumentation of the generated file does not compile: %s' % json.dumps(list(harness_broke.items())[:2])[:1500])
            ok = [i for i in ok if i not in comp_fail]
            if len(ok) < max(3, len(decls) // 2):
                raise pl.ExitTwo('only %d of %d declarations reached an executable injector (generator refused %d, driver %d, '
                                 'compile errors %d): %s' % (len(ok), len(decls), len(gen_fail), len(dg_fail), len(comp_fail),
                                                             json.dumps({'gen': list(gen_fail.items())[:2],
                                                                         'dg': list(dg_fail.items())[:2],
                                                                         'comp': list(comp_fail.items())[:2]})[:3000]))
            maxruns = int(os.environ.get('VERIF_MAXRUNS', '150' if quick else ('600' if modes == 'none' else '300')))
            gmps = [None] if quick else ([None, 1, 4] if modes == 'none' else [None, 2])

            # ---- B2: real executions -------------------------------------------------------------------------------
            jobs = [(i, g) for i in ok for g in gmps]
            def runs_for(i_):
                # wide declarations: every execution passes a dozen gates; a capped, seeded walk is enough for them
                return min(maxruns, 150) if len(byid[i_]['providers']) >= 10 else maxruns
            results = pl.pmap(lambda j: pl.run_driver(root, pkg[j[0]], modes=modes, maxruns=runs_for(j[0]), seed=sd, gomaxprocs=j[1],
                                                      timeout=900, decl=j[0]), jobs)
            trace_parts = []
            nexec = 0
            exhaustive_progs = 0
            crashed = []
            for (i, g), r in zip(jobs, results):
                if os.path.exists(r['trace']):
                    trace_parts.append(open(r['trace']).read())
                sp = r['trace'] + '.summary'
                if os.path.exists(sp):
                    s = json.load(open(sp))
                    nexec += s['executions']
                    if g is None and all(m['exhaustive'] for m in s['modes'].values()):
                        exhaustive_progs += 1
                if r['rc'] not in (0, 66):
                    crashed.append((i, g, r))
            # race reports
            races = []
            for i in ok:
                for fn in os.listdir(os.path.join(root, pkg[i])):
                    if fn.startswith('race-%s.' % i):
                        races.append((i, open(os.path.join(root, pkg[i], fn)).read()))
            # re-number executions globally so that (tr) is unique per file
            lines = []
            trid = {}
            events_by_tr = collections.defaultdict(list)
            for part in trace_parts:
                local = {}
                for ln in part.splitlines():
                    if not ln.strip():
                        continue
                    ev = json.loads(ln)
                    k = ev['tr']
                    if k not in local:
                        local[k] = len(trid) + len(local)
                    ev['tr'] = local[k]
                    events_by_tr[ev['tr']].append(ev)
                    lines.append(json.dumps(ev))
                for k, v in local.items():
                    trid[v] = True
            ntraces = len(events_by_tr)
            if ntraces == 0:
                raise pl.ExitTwo('no execution was recorded')
            # validate against InjectorReq.tla in parallel chunks (executions grouped by declaration; one TLC process each)
            decl_of_tr = {tr: evs[0].get('decl') for tr, evs in events_by_tr.items() if evs and evs[0].get('ev') == 'Call'}
            nchunk = max(1, min(pl.NCPU, len(lines) // 40000 + 1))
            dl = sorted({d for d in decl_of_tr.values() if d})
            chunk_of = {d: k % nchunk for k, d in enumerate(dl)}
            clines = [[] for _ in range(nchunk)]
            for tr in sorted(events_by_tr):
                d = decl_of_tr.get(tr)
                if d is None:
                    continue
                clines[chunk_of[d]].extend(json.dumps(e) for e in events_by_tr[tr])

            def req_chunk(k):
                if not clines[k]:
                    return {'viol': [], 'lines': 0}, 0
                dd = [ds.tla_decl(byid[i]) for i in dl if chunk_of[i] == k]
                r = pl.tlc(w, 'InjectorReq', 'InjectorReq.cfg', files={'decls.json': json.dumps(dd), 'trace.ndjson': '\n'.join(clines[k]) + '\n'},
                           workers=1, timeout=6000, name='req-%d-%d' % (sk, k))
                vp = os.path.join(r['dir'], 'viol.json')
                if r['rc'] != 0 or not os.path.exists(vp):
                    raise pl.ExitTwo('trace validation against InjectorReq.tla failed (rc=%s): %s %s' % (r['rc'], r['out'][-3000:], r['err'][-1000:]))
                vjk = json.load(open(vp))
                if vjk['lines'] != len(clines[k]):
                    raise pl.ExitTwo('InjectorReq consumed %d of %d trace lines' % (vjk['lines'], len(clines[k])))
                st_, _ = pl.tlc_stats(r['out'])
                return vjk, st_
            vj = {'viol': []}
            req_states = 0
            for vjk, st_ in pl.pmap(req_chunk, range(nchunk), workers=min(nchunk, 8)):
                vj['viol'].extend(vjk['viol'])
                req_states += st_

            real_sigs = collections.defaultdict(list)   # sig -> [(decl, tr)]
            for v in vj['viol']:
                if v['clause'] not in clauses:
                    continue
                did = v['decl']
                prog = progs[did]
                evs = events_by_tr.get(v['tr'], [])
                rline = 0
                parked = []
                for e in evs:
                    if e['ev'] == 'Return':
                        rline = e['site']
                    if e['ev'] in ('Final', 'Hang'):
                        parked = [p['line'] for p in e['parked']]
                    if e['ev'] == 'Quiesced' and e['point'] == 'after-return' and v['clause'] == 'C03.join' and not parked:
                        parked = [p['line'] for p in e['parked']]
                sig = signature(v['clause'], prog, rline, parked)
                real_sigs[sig].append((did, v['tr'], v))
            for i, txt in races:
                if 'C01.race' in clauses:
                    real_sigs['C01.race|race-detector'].append((i, -1, {'detail': txt[:3000]}))
                else:
                    rep.notes.append('race detector report on %s (C01\'s business): %s' % (i, txt[:400]))
            panic_clause = {'C03': 'C03.panic', 'C06': 'C06.panic', 'C07': 'C07.panic'}.get(prop)
            for i, g, r_ in crashed:
                msg = r_['stderr']
                m = re.search(r'panic: ([^\n]*)', msg)
                top = re.search(r'goroutine \d+ \[running\]:\n(\S+)', msg)
                in_harness = bool(top and top.group(1).startswith('scratch/rt.'))
                if m and 'rt.' not in m.group(1) and not in_harness:
                    if panic_clause:
                        real_sigs[panic_clause + '|' + m.group(1).strip()[:80]].append((i, -1, {'detail': msg[-3000:]}))
                    else:
                        rep.notes.append('injector of %s panicked (%s): business of C03/C06/C07' % (i, m.group(1)[:100]))
                else:
                    rep.problem('driver of %s (GOMAXPROCS=%s) exited with %s: %s' % (i, g, r_['rc'], msg[-1500:]))

            # ---- B1: exhaustive interleavings of the extracted programs ------------------------------------------
            # programs with many goroutines are left to the real executions (InjectorReq): their interleavings are beyond
            # exhaustive exploration
            wide = [i for i in ok if len(progs[i].get('threads', [])) > 6]
            agg['too_wide_for_tlc'] = agg.get('too_wide_for_tlc', 0) + len(wide)
            mdecls = [byid[i] for i in ok if i not in wide]
            mprogs = [progs[i] for i in ok if i not in wide]
            unmodelled = {p['decl']: p['unmodelled'] for p in mprogs if p['unmodelled']}
            flags, mstates, mtrans, _ = wb.model_check(w, mdecls, mprogs, modes='none' if modes == 'none' else None, name='mc%d' % sk)
            # white-box conformance: real executions must be behaviours of the extracted programs (InjectorTrace.tla)
            tbd = collections.defaultdict(list)
            for tr, evs in events_by_tr.items():
                if evs and evs[0].get('ev') == 'Call':
                    tbd[evs[0]['decl']].append(evs)
            wt_ok, wt_states, wt_fail = wb.trace_validate(w, mdecls, mprogs, tbd, per_prog=4 if quick else 12, cap=500 if quick else 1500, name='wt%d' % sk)
            for did, ti, pos, around in wt_fail:
                rep.problem('Injector.tla cannot explain a real execution of %s (trace %d, stuck before visible event %d: %s): the model of Go\'s '
                            'primitives or the extractor misrepresents the generated code' % (did, ti, pos, json.dumps(around)[:400]))
            model_sigs = collections.defaultdict(list)
            witness = set()
            wanted_modes = set(modes.split(','))

            def mode_name(m):
                m = sorted(m)
                return {(): 'none', ('fail',): 'fail', ('cancel',): 'cancel', ('cancel', 'fail'): 'failcancel'}[tuple(m)]
            for f in flags:
                c = f['f']['clause']
                if c == 'C05.witness':
                    witness.add(f['prog'])
                    continue
                if c not in clauses or mode_name(f['mode']) not in wanted_modes:
                    continue
                prog = progs[f['prog']]
                sig = signature(c, prog, f['f']['rline'], f['f']['parked'])
                model_sigs[sig].append((f['prog'], mode_name(f['mode']), f['f']))
            if prop == 'C05':
                for d in mdecls:
                    if d['id'] in unmodelled:
                        continue
                    e = {p['id']: p for p in ds.eff_providers(d)}
                    zia = [p for p in ds.needed(d) if e[p]['kind'] == 'fn' and e[p]['async'] and not e[p]['requires']]
                    if len(zia) >= 2 and d['id'] not in witness:
                        model_sigs['C05.overlap'].append((d['id'], 'none', {}))

            # ---- verdicts ------------------------------------------------------------------------------------------
            def replay_of(did, tr):
                d = byid[did]
                src = ''
                try:
                    src = open(os.path.join(root, pkg[did], 'k_band.go.orig')).read()
                except OSError:
                    pass
                evs = events_by_tr.get(tr, [])
                path = None
                for e in evs:
                    if e['ev'] == 'End':
                        path = e['path']
                return {'decl': d, 'generated': src, 'path': path, 'events': evs[:200]}

            # ---- scope of the known findings ---------------------------------------------------------------------------
            # A known finding is a defect of the reference design (Planner.tla + Injector.tla) on particular inputs.  A
            # declaration on which the real code shows a known finding's signature although the program PLANNED for that
            # very declaration cannot show it (TLC, all schedules) is a new violation: the change made the defective path
            # reachable for inputs it did not concern.
            opn0, _ = load_known()
            import design
            for sig in [s_ for s_ in list(real_sigs) if s_ in opn0]:
                occ = real_sigs[sig]
                dids = sorted({o[0] for o in occ})[:40]
                planned = design.planned_signatures(w, [byid[i] for i in dids], clauses, modes, signature,
                                                    name='scope%d-%d' % (sk, abs(hash(sig)) % 100000))
                def failing_of(o):
                    for e in events_by_tr.get(o[1], []):
                        if e['ev'] == 'Return' and str(e.get('cls', '')).startswith('prov:'):
                            return e['cls'][5:]
                    return None
                beyond = [o for o in occ if o[0] in planned and (sig, failing_of(o)) not in planned[o[0]]]
                agg['kf_scope_checked'] = agg.get('kf_scope_checked', 0) + len(planned)
                if beyond:
                    bset = {o[0] for o in beyond}
                    real_sigs[sig + '|on-inputs-the-known-finding-does-not-cover'] = beyond
                    rest = [o for o in occ if o[0] not in bset]
                    if rest:
                        real_sigs[sig] = rest
                    else:
                        del real_sigs[sig]

            for sig, occ in sorted(real_sigs.items()):
                did, tr, v = occ[0]
                what = '%s on declaration %s (%d occurrence(s) in %d declaration(s)); detail=%s' % (
                    sig, did, len(occ), len({o[0] for o in occ}), json.dumps(v.get('detail', ''))[:300])
                rep.found(sig, what, replay_of(did, tr))
            model_only = {s: o for s, o in model_sigs.items() if s not in real_sigs}
            opn, _ = load_known()
            unrepro = []
            for sig, occ in sorted(model_only.items()):
                # re-drive the real injector of up to 3 of the programs concerned: more schedules, three GOMAXPROCS values
                reproduced = False
                for did in sorted({o[0] for o in occ})[:3]:
                    for g in (1, 2, 16):
                        rr = pl.run_driver(root, pkg[did], modes=modes, maxruns=maxruns * 4, seed=sd + 17 * g, gomaxprocs=g,
                                           timeout=900, out=os.path.join(root, pkg[did], 'redrive-%s-%d.ndjson' % (did, g)), decl=did)
                        if not os.path.exists(rr['trace']):
                            continue
                        txt = open(rr['trace']).read()
                        r2 = pl.tlc(w, 'InjectorReq', 'InjectorReq.cfg',
                                    files={'decls.json': json.dumps([ds.tla_decl(byid[did])]), 'trace.ndjson': txt},
                                    workers=1, timeout=1200, name='redrive-%d-%s-%d-%d' % (sk, did, g, abs(hash(sig)) % 100000))
                        vp2 = os.path.join(r2['dir'], 'viol.json')
                        if not os.path.exists(vp2):
                            continue
                        ev2 = collections.defaultdict(list)
                        for ln in txt.splitlines():
                            e = json.loads(ln)
                            ev2[e['tr']].append(e)
                        for v in json.load(open(vp2))['viol']:
                            if v['clause'] not in clauses:
                                continue
                            rline, parked = 0, []
                            for e in ev2.get(v['tr'], []):
                                if e['ev'] == 'Return':
                                    rline = e['site']
                                if e['ev'] in ('Final', 'Hang'):
                                    parked = [p['line'] for p in e['parked']]
                            s2 = signature(v['clause'], progs[did], rline, parked)
                            if s2 == sig:
                                reproduced = True
                                events_by_tr[('r', did, v['tr'])] = ev2[v['tr']]
                                rep.found(sig, '%s on declaration %s (found by TLC on the extracted program, reproduced on the real '
                                               'injector by re-driving it)' % (sig, did), replay_of(did, ('r', did, v['tr'])))
                                break
                        if reproduced:
                            break
                    if reproduced:
                        break
                if not reproduced:
                    unrepro.append((sig, occ[0]))
            for sig, o in unrepro:
                if sig in opn:
                    rep.notes.append('model-level signature %s (known finding %s) not reproduced on real code in this run' % (sig, opn[sig][1]))
                else:
                    rep.problem('TLC finds %s on the program extracted for %s (mode %s) but the real injector did not reproduce it '
                                'in %d re-driven schedules; undecided' % (sig, o[0], o[1], maxruns * 12))

            # ---- aggregate -------------------------------------------------------------------------------------------
            nontrivial = [i for i in ok if len(progs[i]['threads']) > 1]
            agg['ok'] += ok
            agg['gen_fail'].update(gen_fail)
            agg['comp_fail'].update(comp_fail)
            agg['dg_fail'].update(dg_fail)
            agg['unmodelled'].update(unmodelled)
            agg['mstates'] += mstates
            agg['mtrans'] += mtrans
            agg['nlines'] += len(lines)
            agg['nexec'] += nexec
            agg['exhaustive_progs'] += exhaustive_progs
            for sg, o in real_sigs.items():
                agg['real_sigs'][sg] += len(o)
                real_sig_names.add(sg)
            for sg, o in model_sigs.items():
                agg['model_sigs'][sg] += len(o)
            agg['wt_ok'] += wt_ok
            agg['wt_states'] += wt_states
            agg['req_states'] += req_states
            agg['ntraces'] += ntraces
            agg['nmodelled'] += len(mprogs) - len(unmodelled)
            agg['nontrivial'] += len(nontrivial)
            if agg['sample'] is None:
                sample_decl = byid[nontrivial[0]] if nontrivial else byid[ok[0]]
                sample_tr = None
                for tr, evs in events_by_tr.items():
                    if evs and evs[0].get('decl') == sample_decl['id']:
                        sample_tr = [{k: v for k, v in e.items() if k not in ('parked',)} for e in evs[:14]]
                        break
                agg['sample'] = {'declaration': ds.tla_decl(sample_decl), 'first_events_of_one_real_execution': sample_tr,
                                 'extracted_program_threads': len(progs[sample_decl['id']]['threads'])}
            # planner conformance on this slice
            import design
            # (also the wide programs that are not model-checked: Planner.tla plans 16-provider declarations in seconds since
            # its maximum-matching operator is recursive)
            nchk, pdiff = design.planner_conformance(w, [byid[i] for i in ok], progs, name='plannercheck%d' % sk)
            agg.setdefault('nchk', 0)
            agg.setdefault('pdiff', [])
            agg['nchk'] += nchk
            agg['pdiff'] += pdiff
            import shutil
            shutil.rmtree(root, ignore_errors=True)

        for sk, sl in enumerate(slices):
            do_slice(sl, sk)
        ok = agg['ok']
        real_sigs = {sg: None for sg in real_sig_names}
        decls = all_decls
        byid = byid_all
        # ---- design level: every small declaration planned by Planner.tla and explored by TLC (no Go build) -----
        import design
        nchk, pdiff = agg.get('nchk', 0), agg.get('pdiff', [])
        if pdiff:
            rep.notes.append('the generator plans %d of %d declarations differently from Planner.tla (outside the modelled design; '
                             'informational): %s' % (len(pdiff), nchk, pdiff[:8]))
        dnmax = 4 if quick else 5
        dcap = None if quick else int(os.environ.get('VERIF_DESIGN_CAP', '6000'))
        dbyid, dprogs, dsigs, dstates, dtrans, ddropped = design.explore(w, prop, clauses, modes, signature, dnmax, sd, dcap, p_fall=0.2 if prop == 'C07' else 0.5)
        for sig, occ in sorted(dsigs.items()):
            if sig in real_sigs:
                continue      # already decided on real executions
            cand = [dbyid[i] for i in list(dict.fromkeys(o[0] for o in occ))[:3]]
            got, ran = real_signatures(w, cli, cand, prop, clauses, modes, sd, maxruns, 'd%d' % (abs(hash(sig)) % 10000))
            if sig in got:
                rep.found(sig, '%s on declaration %s (found by TLC on the program PLANNED by Planner.tla for every small declaration, '
                               'reproduced on the real generated injector)' % (sig, got[sig]['decl']['id']), got[sig])
            elif sig in opn:
                rep.notes.append('design-level signature %s (known finding %s) not reproduced on real code for %s' % (sig, opn[sig][1], [c['id'] for c in cand]))
            else:
                rep.problem('TLC finds %s on the program Planner.tla plans for %s, but the real injector generated for it does not show it '
                            '(real signatures: %s): Planner.tla / Injector.tla and the code disagree; undecided'
                            % (sig, [c['id'] for c in cand], sorted(got)))
        if ddropped:
            rep.notes.append('Planner.tla leaves a pool unscheduled for %s' % ddropped[:5])
        # ---- is the design-level exploration about THIS generator?  Every explored declaration is generated for real and the
        # generated program compared with the planned one.  Where they differ, the exploration above says nothing: those
        # declarations (with each provider fallible in turn) are built and executed, and judged like the batch.
        gdecls = list(dbyid.values())
        n_design_planned = len(gdecls)
        if quick:
            # conformance only (no exploration of the plan): a seeded sample of the declarations with 5 providers
            five = [d_ for d_ in design.enumerate_decls(5, sd, None, 0.2 if prop == 'C07' else 0.5) if len(d_['providers']) == 5]
            for d_ in random.Random(sd + 5).sample(five, 800):
                d_ = dict(d_, id='v' + d_['id'][1:], injector='Init_v' + d_['id'][1:])
                gdecls.append(d_)
                dbyid[d_['id']] = d_
        gnchk, gdiff, gprogs, grefused = design.generator_conformance(w, cli, gdecls, name='gconf')
        if grefused:
            rep.notes.append('the generator refuses %d declarations of the design-level exploration: %s' % (len(grefused), grefused[:5]))
        gnew = []
        if gdiff:
            rep.notes.append('the generator plans %d of the %d declarations of the design-level exploration differently from Planner.tla: '
                             'they are executed for real (%s ...)' % (len(gdiff), gnchk, gdiff[:6]))
            rngd = random.Random(sd)
            # (a) the extracted programs of the differing declarations, explored exhaustively by TLC; what the model shows
            #     beyond the known findings' scope is taken to the real code below
            xdiff = sorted(gdiff) if len(gdiff) <= 400 else sorted(rngd.sample(sorted(gdiff), 400))
            xs = design.program_signatures(w, [dbyid[i] for i in xdiff], gprogs, clauses, modes, signature, name='gdiffx')
            xplanned = design.planned_signatures(w, [dbyid[i] for i in xs if xs[i]], clauses, modes, signature, name='gdiffxp') if any(xs.values()) else {}
            suspects = []
            for i in sorted(xs):
                for sg_, fl_ in sorted(xs[i], key=str):
                    if sg_ in opn and (i not in xplanned or (sg_, fl_) in xplanned[i]):
                        continue
                    suspects.append((sg_, i))
            seen_s = set()
            pick_first = []
            for sg_, i in suspects:
                if sg_ not in seen_s or len([1 for s2_, _ in pick_first if s2_ == sg_]) < 2:
                    seen_s.add(sg_)
                    if i not in [j for _, j in pick_first]:
                        pick_first.append((sg_, i))
            pick_first = [i for _, i in pick_first][:10]
            rest = [i for i in sorted(gdiff) if i not in pick_first]
            pickd = pick_first + (rest if len(rest) <= 16 else sorted(rngd.sample(rest, 16)))
            cand = []
            for i in pickd:
                cand += ([dbyid[i]] + design.fallible_variants(dbyid[i])) if modes != 'none' else [dbyid[i]]
            got, ran = real_signatures(w, cli, cand, prop, clauses, modes, sd, maxruns, 'gdiff')
            planned = design.planned_signatures(w, [c for c in cand if c['id'] in ran], clauses, modes, signature, name='gdiffscope') if got else {}
            for sig, info in sorted(got.items()):
                for did, failing in info['occurrences']:
                    if sig in opn and did in planned and (sig, failing) in planned[did]:
                        continue     # the known finding, on an input it covers
                    if sig in opn and did not in planned:
                        continue     # cannot tell (outside the planner's domain)
                    s2 = sig + ('|on-inputs-the-known-finding-does-not-cover' if sig in opn else '')
                    if s2 in gnew:
                        continue
                    gnew.append(s2)
                    bd = info.get('by_decl', {}).get('%s|%s' % (did, failing), {})
                    rep.found(s2, '%s on declaration %s (failing provider %s), one of the small declarations the generator schedules '
                                  'differently from the reference design (Planner.tla)' % (s2, did, failing),
                              {'decl': bd.get('decl', info['decl']), 'path': bd.get('path', info['path']), 'generated': info['generated'] if did == info['decl']['id'] else '',
                               'events': info['events'] if did == info['decl']['id'] else []})

        # ---- evidence ------------------------------------------------------------------------------------------
        rep.cov.update({
            'states': agg['mstates'] + agg['req_states'] + dstates + agg['wt_states'],
            'transitions': agg['mtrans'] + agg['req_states'] + dtrans + agg['wt_states'],
            'design_level': {'declarations_planned_by_Planner_tla': n_design_planned, 'five_provider_declarations_in_conformance_sample': len(gdecls) - n_design_planned, 'max_providers': dnmax, 'states': dstates, 'transitions': dtrans,
                             'signatures': {k: len(v) for k, v in dsigs.items()},
                             'planner_conformance_checked': nchk, 'planner_conformance_differences': len(pdiff),
                             'design_declarations_generated_for_real_and_compared_with_plan': gnchk, 'design_declarations_planned_differently': len(gdiff)},
            'traces_validated_against_impl': agg['ntraces'],
            'samples': [agg['sample']],
            'declarations': len(decls), 'declarations_executed': len(ok),
            'declarations_sharing_a_file_with_others': len([d for d in decls if d.get('group')]),
            'declarations_with_goroutines': agg['nontrivial'],
            'generator_refused': sorted(agg['gen_fail'])[:20], 'not_compiling_skipped': sorted(agg['comp_fail'])[:20],
            'driver_not_generated': sorted(agg['dg_fail'])[:20],
            'programs_model_checked': agg['nmodelled'], 'programs_unmodelled': agg['unmodelled'], 'programs_too_wide_for_exhaustive_interleaving': agg.get('too_wide_for_tlc', 0), 'declarations_checked_against_known_finding_scope': agg.get('kf_scope_checked', 0),
            'real_executions_explained_by_extracted_program': agg['wt_ok'], 'whitebox_trace_states': agg['wt_states'],
            'model_states_distinct': agg['mstates'], 'model_transitions': agg['mtrans'],
            'trace_events_validated': agg['nlines'], 'real_executions': agg['nexec'],
            'programs_with_exhaustive_gate_dfs': agg['exhaustive_progs'],
            'modes': modes, 'clauses_checked': clauses,
            'signatures_seen_real': dict(agg['real_sigs']),
            'signatures_seen_model': dict(agg['model_sigs']),
            'exhaustive': False,
            'evaluations': agg['nexec'], 'distinct_nontrivial': agg['nontrivial'],
            'rule': 'one evaluation = one real execution of a generated injector under one gate-level schedule; a declaration is '
                    'non-trivial when its injector starts at least one goroutine',
        })
        rep.assumptions += [
            'providers return (C07/C08 assume so); provider bodies are the harness\'s',
            'interleavings finer than provider entry/exit are exhaustive only in the TLA+ model (Injector.tla) of the extracted '
            'program; on real code they are sampled (select races) and re-driven when the model flags them',
            'model of Go select/close/errgroup/context in Injector.tla is trusted (about 60 lines)',
            'declarations: <= %d providers, exhaustive for n<=3 shapes (quick: seeded subset), seeded random beyond' % (7 if quick else 8),
        ]
        gen_fail, comp_fail, dg_fail = agg['gen_fail'], agg['comp_fail'], agg['dg_fail']
        if gen_fail:
            rep.notes.append('generator refused %d accepted declaration(s) (C09\'s business, skipped here): %s'
                             % (len(gen_fail), json.dumps(list(gen_fail.items())[:2])[:600]))
        if comp_fail:
            rep.notes.append('%d generated package(s) did not compile (C04\'s business, skipped here): %s'
                             % (len(comp_fail), json.dumps(list(comp_fail.items())[:2])[:600]))
        if dg_fail:
            rep.notes.append('no driver for %d declaration(s) (unexpected signature, C10\'s business): %s'
                             % (len(dg_fail), json.dumps(list(dg_fail.items())[:2])[:600]))


if __name__ == '__main__':
    sys.exit(main(sys.argv[1], sys.argv[2] if len(sys.argv) > 2 else 'quick'))
