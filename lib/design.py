"""Design-level exploration (DESIGN.md 12): every small declaration is planned by spec/Planner.tla (the generator's
scheduler as a TLA+ function, bound to the real generator by PlannerCheck.tla) and the planned program is explored
exhaustively by TLC on Injector.tla — no Go code is built.  A violated clause whose blame signature is not a known
finding is taken to the REAL code: the declarations showing it are generated, built and executed, and only what
reproduces there is reported."""
import os
import json
import random
import collections

import pipeline as pl
import declspace as ds
import whitebox as wb


def enumerate_decls(nmax, seed, cap=None, p_fall=0.5, constructs=False):
    """all DAGs on n <= nmax topologically numbered providers x every Async subset; fallible flags seeded"""
    rng = random.Random(seed * 31 + 5)
    out = []
    k = 0
    for n in range(1, nmax + 1):
        for edges in ds.all_dags(n):
            for a in ds.subsets(range(n)):
                f = {i for i in range(n) if rng.random() < p_fall} if (k % 3) else set()
                out.append(ds.mk_decl('p%06d' % k, n, edges, n - 1, a, f))
                k += 1
    if cap and len(out) > cap:
        small = [d for d in out if len(d['providers']) < nmax]
        big = [d for d in out if len(d['providers']) == nmax]
        out = small + rng.sample(big, max(0, cap - len(small)))
    if constructs:
        # the same shapes with one provider turned into (S) a struct that is expanded - its consumers read a field - or
        # (M) a provider with two results, the second one consumed by the provider of the requested type: every such
        # variant of the declarations with <= 3 providers, a seeded sample of the larger ones
        rc = random.Random(seed * 17 + 3)
        small, big = [], []
        for d in out:
            (small if len(d['providers']) <= 3 else big).extend(construct_variants(d))
        out = out + small + rc.sample(big, min(len(big), 250 if nmax <= 4 else 1200))
    return out


def construct_variants(d):
    """struct-expansion and two-result variants of a plain function-provider declaration (see enumerate_decls)"""
    import copy
    out = []
    n = len(d['providers'])
    for i, p in enumerate(d['providers']):
        t = p['provides'][0][0]
        consumed = any(t in q['requires'] for q in d['providers']) or d['ret'] == t
        if not consumed:
            continue
        # (S) Pi returns a struct S<i>{Fa T<i>; Fb U<i>} which is expanded
        v = copy.deepcopy(d)
        sname, uname = 'S%d' % i, 'U%d' % i
        v['types'][sname] = {'form': 'val', 'fields': [['Fa', t], ['Fb', uname]]}
        v['types'][uname] = {'form': 'val'}
        v['providers'][i]['provides'] = [[sname]]
        v['providers'].append({'id': 'X%d' % i, 'kind': 'structexp', 'requires': [], 'provides': [], 'async': False, 'fallible': False,
                               'wrap': 'async-bind', 'struct': sname})
        v['layout'] = list(v['layout']) + ['X%d' % i]
        v['id'] = '%ss%d' % (d['id'], i)
        v['injector'] = 'Init_' + v['id']
        if ds.accepts(v) and v['ret'] in ds.suppliers(v):
            out.append(v)
        # (A) the same with the expansion wrapped in Async and BOTH fields consumed (the second one by the provider of the
        #     requested type): whatever the generator makes of Async(Struct[T]()) is compared with the plan (field reads are
        #     synchronous and follow their struct), seeded change w10-C08-1
        if i != n - 1 and d['providers'][n - 1]['provides'][0][0] == d['ret']:
            a = copy.deepcopy(v)
            a['providers'][-1]['async'] = True
            a['providers'][n - 1]['requires'] = list(a['providers'][n - 1]['requires']) + [uname]
            a['id'] = '%sa%d' % (d['id'], i)
            a['injector'] = 'Init_' + a['id']
            if ds.accepts(a) and a['ret'] in ds.suppliers(a):
                out.append(a)
        # (M) Pi has a second result U<i>, which the provider of the requested type consumes as well
        if i != n - 1 and d['providers'][n - 1]['provides'][0][0] == d['ret']:
            v = copy.deepcopy(d)
            v['types'][uname] = {'form': 'ptr'}
            v['providers'][i]['provides'] = [[t], [uname]]
            v['providers'][n - 1]['requires'] = list(v['providers'][n - 1]['requires']) + [uname]
            v['id'] = '%sm%d' % (d['id'], i)
            v['injector'] = 'Init_' + v['id']
            if ds.accepts(v) and v['ret'] in ds.suppliers(v):
                out.append(v)
    return out


def plan(work, decls, name='plandump'):
    r = pl.tlc(work, 'PlanDump', 'PlanDump.cfg', files={'decls.json': json.dumps([ds.tla_decl(d) for d in decls])}, workers=1,
               timeout=3000, java_opts='-Xss512m', name=name)
    pp = os.path.join(r['dir'], 'plan_progs.json')
    if not os.path.exists(pp):
        raise pl.ExitTwo('Planner.tla could not plan the declarations: %s' % r['out'][-2500:])
    progs = json.load(open(pp))
    for p in progs:
        p['unmodelled'] = []
        p['sites'] = sites_of(p)
    return progs


def sites_of(prog):
    """site descriptors of a planned program, spelled like harness/cmd/extract spells those of a generated file"""
    s = {}
    haserr = prog['haserr']
    for ti, th in enumerate(prog['threads']):
        who = 'main' if ti == 0 else 'go'
        for ins in th:
            op = ins['op']
            if op == 'wait':
                s[str(ins['line'])] = '%s:select(ch|ctx)' % who if ins['ctx'] else '%s:recv(ch)' % who
                if ins['ctx']:
                    s[str(ins['rline'])] = ('main:select-ctx:return(zero,ctx.Err())' if who == 'main' else 'go:select-ctx:return(ctx.Err())')
            elif op == 'call' and ins['errck'] == 'ret':
                s[str(ins['rline'])] = 'main:if-err:return(zero,err)' if who == 'main' else 'go:if-err:return(err)'
            elif op == 'egwait':
                s[str(ins['line'])] = 'main:egwait'
                s[str(ins['rline'])] = 'main:egwait-err:return(nil,err)'
            elif op == 'ret':
                s[str(ins['line'])] = 'main:top:return(v,nil)' if haserr else 'main:top:return(v)'
            elif op == 'gend':
                s[str(ins['line'])] = 'go:top:return(nil)'
    return s


def view_of(prog, decl=None):
    """plan view of an extracted program: per thread the providers called and the fields read (node `<structexp id>.<field>`),
    each with the producers it waits for.  The struct a field read belongs to is found through the type of the variable read:
    result k of provider p has the first type of p's k-th result group, a field has its declared type."""
    vtype = {}
    byid = {p['id']: p for p in (decl or {}).get('providers', [])}
    expof = {p['struct']: p['id'] for p in (decl or {}).get('providers', []) if p['kind'] == 'structexp'}

    def field_id(ins):
        st = vtype.get(ins['src'])
        x = expof.get(st)
        if x is None:
            return '?field:%s.%s' % (ins['src'], ins['field'])
        ft = dict((f, t) for f, t in decl['types'][st].get('fields', [])).get(ins['field'])
        if ins['dst'] != '_' and ft:
            vtype[ins['dst']] = ft
        return '%s.%s' % (x, ins['field'])
    # types of variables: calls first (a field read may precede, in file order, the call that produces its struct)
    for th in prog['threads']:
        for ins in th:
            if ins['op'] == 'call' and ins['p'] in byid:
                for k, v in enumerate(ins['rets']):
                    if v != '_' and k < len(byid[ins['p']].get('provides', [])):
                        vtype[v] = byid[ins['p']]['provides'][k][0]
    fid = {}
    for _ in range(3):      # nested expansions: a field that is itself an expanded struct
        for ti, th in enumerate(prog['threads']):
            for ii, ins in enumerate(th):
                if ins['op'] == 'field':
                    fid[(ti, ii)] = field_id(ins)
    owner = {}
    for ti, th in enumerate(prog['threads']):
        last = None
        for ii, ins in enumerate(th):
            if ins['op'] == 'call':
                last = ins['p']
            elif ins['op'] == 'field':
                last = fid[(ti, ii)]
            if ins['op'] == 'close' and last:
                for c in ins['chans']:
                    owner[c] = last

    def tv(ti, th):
        out, waits = [], []
        for ii, ins in enumerate(th):
            if ins['op'] == 'wait':
                waits += [owner.get(c, '?' + c) for c in ins['chans']]
            if ins['op'] == 'call':
                out.append([ins['p'], sorted(set(waits))])
                waits = []
            if ins['op'] == 'field':
                out.append([fid[(ti, ii)], sorted(set(waits))])
                waits = []
        return out
    return {'main': tv(0, prog['threads'][0]), 'goroutines': [tv(t + 1, th) for t, th in enumerate(prog['threads'][1:])]}


def in_planner_domain(d):
    """Planner.tla plans every accepted declaration whose requested type is supplied (since the extension to providers with
    several results and to struct expansions; before, those were outside)."""
    return ds.accepts(d) and d['ret'] in ds.suppliers(d)


def planner_conformance(work, decls, progs_by_id, name='plannercheck'):
    """PlannerCheck.tla on the really generated programs of a batch -> (checked, ids that differ)"""
    dd, views = [], []
    for d in decls:
        p = progs_by_id.get(d['id'])
        if p is None or p['unmodelled'] or not in_planner_domain(d):
            continue
        dd.append(ds.tla_decl(d))
        views.append(view_of(p, d))
    if not dd:
        return 0, []
    r = pl.tlc(work, 'PlannerCheck', 'PlannerCheck.cfg', files={'decls.json': json.dumps(dd), 'views.json': json.dumps(views)}, timeout=3000,
               java_opts='-Xss512m', name=name)
    op = os.path.join(r['dir'], 'planner_out.json')
    if not os.path.exists(op):
        raise pl.ExitTwo('PlannerCheck.tla failed: %s' % r['out'][-2500:])
    o = json.load(open(op))
    return o['n'], o['diff']


def explore(work, prop, clauses, modes, signature, nmax, seed, cap=None, p_fall=0.5):
    """-> (decls, progs, sigs {sig: [(decl id, mode, flag)]}, states, transitions)"""
    decls = enumerate_decls(nmax, seed, cap, p_fall, constructs=True)
    progs = plan(work, decls)
    flags, st, tr, _ = wb.model_check(work, decls, progs, modes='none' if modes == 'none' else None, name='design')
    byid = {d['id']: d for d in decls}
    pbyid = {p['decl']: p for p in progs}
    wanted = set(modes.split(','))

    def mode_name(m):
        return {(): 'none', ('fail',): 'fail', ('cancel',): 'cancel', ('cancel', 'fail'): 'failcancel'}[tuple(sorted(m))]
    sigs = collections.defaultdict(list)
    witness = set()
    for f in flags:
        c = f['f']['clause']
        if c == 'C05.witness':
            witness.add(f['prog'])
            continue
        if c not in clauses or mode_name(f['mode']) not in wanted:
            continue
        sigs[signature(c, pbyid[f['prog']], f['f']['rline'], f['f']['parked'])].append((f['prog'], mode_name(f['mode']), f['f']))
    if prop == 'C05':
        for d in decls:
            e = {p['id']: p for p in ds.eff_providers(d)}
            zia = [p for p in ds.needed(d) if e[p]['kind'] == 'fn' and e[p]['async'] and not e[p]['requires']]
            if len(zia) >= 2 and d['id'] not in witness:
                sigs['C05.overlap'].append((d['id'], 'none', {}))
    dropped = [p['decl'] for p in progs if p.get('dropped')]
    return byid, pbyid, sigs, st, tr, dropped


def planned_signatures(work, decls, clauses, modes, signature, name='scope'):
    """{declaration id: set of (blame signature, provider whose failure is returned at the signature's return site | None)
    TLC finds on the program Planner.tla PLANS for it} — what the reference design does on exactly these inputs (no Go
    code involved)."""
    decls = [d for d in decls if in_planner_domain(d)]
    if not decls:
        return {}
    progs = [p for p in plan(work, decls, name=name + '-plan') if len(p['threads']) <= 6]
    keep = {p['decl'] for p in progs}
    decls = [d for d in decls if d['id'] in keep]
    if not decls:
        return {}
    flags, st, tr, _ = wb.model_check(work, decls, progs, modes='none' if modes == 'none' else None, name=name + '-mc')
    pbyid = {p['decl']: p for p in progs}
    wanted = set(modes.split(','))

    def mode_name(m):
        return {(): 'none', ('fail',): 'fail', ('cancel',): 'cancel', ('cancel', 'fail'): 'failcancel'}[tuple(sorted(m))]
    out = {d['id']: set() for d in decls if not pbyid.get(d['id'], {}).get('dropped')}
    for f in flags:
        c = f['f']['clause']
        if c not in clauses or mode_name(f['mode']) not in wanted or f['prog'] not in out:
            continue
        prog = pbyid[f['prog']]
        failing = None
        for th in prog['threads']:
            for ins in th:
                if ins['op'] == 'call' and ins.get('errck') == 'ret' and ins.get('rline') == f['f']['rline']:
                    failing = ins['p']
        out[f['prog']].add((signature(c, prog, f['f']['rline'], f['f']['parked']), failing))
    return out


def generator_conformance(work, cli, decls, name='gconf'):
    """Run the REAL generator on every declaration of the design-level exploration, extract the generated programs and
    compare their thread structure / call order / wait sets with what Planner.tla plans (PlannerCheck.tla).
    -> (checked, ids whose generated program is not the planned one, extracted programs by id)"""
    decls = [d for d in decls if in_planner_domain(d)]
    root = pl.make_scratch(work, decls, name)
    gen = pl.generate_all(cli, root, decls)
    ok = [d for d in decls if gen[d['id']][0] == 0]
    refused = [d['id'] for d in decls if gen[d['id']][0] != 0]

    def ex(d):
        return d['id'], wb.extract(os.path.join(root, d['id']), d, genfile='k_band.go')
    progs = dict(pl.pmap(ex, ok))
    n, diff = planner_conformance(work, ok, progs, name=name + '-pc')
    import shutil
    shutil.rmtree(root, ignore_errors=True)
    return n, diff, progs, refused


def fallible_variants(d):
    """the declaration with each single provider fallible, and with all of them fallible"""
    out = []
    n = len(d['providers'])
    for k in list(range(n)) + [n]:
        v = json.loads(json.dumps(d))
        v['id'] = '%sf%d' % (d['id'], k)
        v['injector'] = 'Init_' + v['id']
        for i, p in enumerate(v['providers']):
            p['fallible'] = ((k == n) or (i == k)) and p['kind'] == 'fn'
        out.append(v)
    return out


def program_signatures(work, decls, progs_by_id, clauses, modes, signature, name='xsig'):
    """{declaration id: set of (signature, failing provider)} found by TLC on the given (extracted) programs"""
    decls = [d for d in decls if d['id'] in progs_by_id and not progs_by_id[d['id']].get('unmodelled') and len(progs_by_id[d['id']]['threads']) <= 6]
    if not decls:
        return {}
    progs = [progs_by_id[d['id']] for d in decls]
    flags, st, tr, _ = wb.model_check(work, decls, progs, modes='none' if modes == 'none' else None, name=name)
    wanted = set(modes.split(','))

    def mode_name(m):
        return {(): 'none', ('fail',): 'fail', ('cancel',): 'cancel', ('cancel', 'fail'): 'failcancel'}[tuple(sorted(m))]
    out = {d['id']: set() for d in decls}
    for f in flags:
        c = f['f']['clause']
        if c not in clauses or mode_name(f['mode']) not in wanted or f['prog'] not in out:
            continue
        prog = progs_by_id[f['prog']]
        failing = None
        for th in prog['threads']:
            for ins in th:
                if ins['op'] == 'call' and ins.get('errck') == 'ret' and ins.get('rline') == f['f']['rline']:
                    failing = ins['p']
        out[f['prog']].add((signature(c, prog, f['f']['rline'], f['f']['parked']), failing))
    return out
