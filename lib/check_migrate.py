"""C13 (migration preserves what google/wire would have built) and C14 (migration output well-formed, deterministic;
failures write nothing).  google/wire v0.7.0 (module cache, built offline) generates wire_gen.go from each seeded
configuration, `kessoku migrate` + the kessoku generator produce the counterpart, both injectors run on the same
instrumented package; TLC validates the records against spec/WireSem.tla / MigrateTrace.tla."""
import os
import re
import sys
import json
import glob
import shutil
import random
import hashlib
import subprocess
import collections

import pipeline as pl
import wiregen as wg
from common import Report, seed

GOMOD = """module scratchw

go 1.24.0

require (
	github.com/google/wire v0.7.0
	github.com/mazrean/kessoku v0.0.0
	golang.org/x/sync v0.19.0
	golang.org/x/tools v0.42.0
)

replace github.com/mazrean/kessoku => %s
"""


def wenv(extra=None):
    e = pl.go_env({'GONOSUMDB': '*', 'GOSUMDB': 'off', 'GOFLAGS': '-mod=mod'})
    if extra:
        e.update(extra)
    return e


def setup_root(w, name):
    root = w.path(name)
    os.makedirs(root, exist_ok=True)
    open(os.path.join(root, 'go.mod'), 'w').write(GOMOD % pl.REPO)
    shutil.copy(os.path.join(pl.VERIF, 'harness', 'wire.go.sum'), os.path.join(root, 'go.sum'))
    return root


def build_wire(w, root):
    out = w.path('wire-bin')
    p = pl.run(['go', 'build', '-o', out, 'github.com/google/wire/cmd/wire'], cwd=root, env=wenv(), timeout=900)
    if p.returncode != 0:
        raise pl.ExitTwo('cannot build google/wire offline: ' + p.stderr[-2000:])
    return out


def sig_of(path, fname):
    p = pl.run([pl.tool('sigtool'), path], timeout=60)
    if p.returncode != 0:
        return None
    for f in json.loads(p.stdout):
        if f['name'] == fname:
            return f
    return None


def tname(t):
    if t == 'context.Context':
        return 'ctx'
    star = t.startswith('*')
    base = t.lstrip('*').split('.')[-1]
    return base, star


def abstract_param(spec, texpr):
    if texpr == 'context.Context':
        return 'ctx'
    base, star = tname(texpr)
    ty = spec['types'].get(base)
    if ty and ty['form'] == 'bstruct' and star:
        return '*' + base
    return base


def gofmt_clean(path):
    p = pl.run(['gofmt', '-l', path], env=pl.go_env(), timeout=60)
    return p.returncode == 0 and p.stdout.strip() == ''


def run_config(cli, wire, root, spec, nrep):
    """One configuration end to end.  -> dict(status=..., records=[...], mig={...})"""
    sid = spec['id']
    d = os.path.join(root, sid)
    wg.write_pkg(spec, root)
    res = {'id': sid, 'status': 'ok', 'pairs': [], 'mig': None, 'notes': []}
    p = pl.run([wire, 'gen', '.'], cwd=d, env=wenv(), timeout=300)
    if p.returncode != 0:
        res['status'] = 'wire-rejects'
        res['notes'].append(p.stderr[-400:])
        res['why'] = re.sub(r'[\w/.-]*/', '', p.stderr.strip().splitlines()[0])[:160] if p.stderr.strip() else ''
        return res
    # migrate into an output path outside the package, several times (determinism), then once in place
    hashes = []
    outdir = os.path.join(root, '_out_' + sid)
    os.makedirs(outdir, exist_ok=True)
    for k in range(nrep):
        op = os.path.join(outdir, 'k%d.go' % k)
        pm = pl.run([cli, 'migrate', '-o', op, '.'], cwd=d, env=wenv(), timeout=300)
        hashes.append(hashlib.sha256(open(op, 'rb').read()).hexdigest() if os.path.exists(op) else '')
    pm = pl.run([cli, 'migrate', '-o', 'kessoku.go', '.'], cwd=d, env=wenv(), timeout=300)
    errl = [ln for ln in pm.stderr.splitlines() if 'level=INFO' not in ln and 'level=WARN' not in ln]
    kpath = os.path.join(d, 'kessoku.go')
    wrote = os.path.exists(kpath)
    mig = {'ev': 'Mig', 'cfg': sid, 'fail': '', 'kind': 'valid', 'expectok': True, 'exit': pm.returncode, 'wrote': wrote, 'gofmt': True, 'compiles': True,
           'diag': '\n'.join(errl)[-300:], 'sets': [], 'wantsets': sorted(wg.set_names(spec['layout'])), 'hashes': hashes + ([hashlib.sha256(open(kpath, 'rb').read()).hexdigest()] if wrote else [])}
    res['mig'] = mig
    if pm.returncode != 0 or not wrote:
        res['status'] = 'migrate-refuses'
        return res
    mig['gofmt'] = gofmt_clean(kpath)
    src = open(kpath).read()
    mig['sets'] = sorted(re.findall(r'^var (\w+) = kessoku\.Set\(', src, re.M))
    # kessoku variant: wire files set aside
    kd = os.path.join(root, sid + '_k')
    shutil.copytree(d, kd)
    os.remove(kpath)   # the wire variant is built without the migrated file
    for fn in os.listdir(kd):
        if fn in ('wire.go', 'wire_gen.go') or fn.startswith('sets'):
            os.remove(os.path.join(kd, fn))
    # sub-packages are imported as scratchw/<id>/...: keep them shared by rewriting imports of the copy
    for dp, dn, fns in os.walk(kd):
        for fn in fns:
            if fn.endswith('.go'):
                pth = os.path.join(dp, fn)
                t = open(pth).read()
                t2 = t.replace('"scratchw/%s/' % sid, '"scratchw/%s_k/' % sid)
                if t2 != t:
                    open(pth, 'w').write(t2)
    # C14: the migrated file compiles in the source package once the wire files are set aside
    open(os.path.join(kd, 'main.go'), 'w').write('package main\n\nfunc main() {}\n')
    bk0 = pl.run(['go', 'build', '-o', os.devnull, '.'], cwd=kd, env=wenv(), timeout=600)
    if bk0.returncode != 0:
        mig['compiles'] = False
        lines_ = bk0.stderr.strip().splitlines()
        mig['diag'] = re.sub(r'[\w/.-]*/', '', lines_[1] if len(lines_) > 1 else bk0.stderr)[:200]
    os.remove(os.path.join(kd, 'main.go'))
    pg = pl.run([cli, 'kessoku.go'], cwd=kd, env=wenv(), timeout=300)
    if pg.returncode != 0:
        res['status'] = 'generator-refuses'
        res['notes'].append(pg.stderr[-500:])
        return res
    injnames = [spec['injector']['name']] + ([spec['injector2']['name']] if spec.get('injector2') else [])
    winjs, kinjs, kparams_of = [], [], {}
    for inj in injnames:
        ws = sig_of(os.path.join(d, 'wire_gen.go'), inj)
        ks = sig_of(os.path.join(kd, 'kessoku_band.go'), inj)
        if ws is None or ks is None:
            res['status'] = 'no-injector'
            res['notes'].append('%s: wire sig %s kessoku sig %s' % (inj, ws, ks))
            return res
        winjs.append((inj, [t for _, t in ws['params']], ws['results'][-1] == 'error'))
        kinjs.append((inj, [t for _, t in ks['params']], ks['results'][-1] == 'error'))
        kparams_of[inj] = [abstract_param(spec, t) for _, t in ks['params']]
    ok1 = wg.write_main(spec, d, winjs)
    ok2 = wg.write_main(spec, kd, kinjs, pkgid=sid + '_k')
    kparams = kparams_of[injnames[0]]
    if not ok1 or not ok2:
        res['status'] = 'undrivable'
        res['kparams'] = kparams
        res['notes'].append('params wire=%s kessoku=%s' % (winjs, kinjs))
        # the migrated file must still compile with the wire files set aside (C14)
        open(os.path.join(kd, 'main.go'), 'w').write('package main\n\nfunc main() {}\n')
        bk = pl.run(['go', 'build', '-o', os.devnull, '.'], cwd=kd, env=wenv(), timeout=600)
        if bk.returncode != 0:
            mig['compiles'] = False
            lines_ = bk.stderr.strip().splitlines()
            mig['diag'] = re.sub(r'[\w/.-]*/', '', lines_[1] if len(lines_) > 1 else bk.stderr)[:200]
        return res
    bw = pl.run(['go', 'build', '-o', os.path.join(d, 'bin_w'), '.'], cwd=d, env=wenv(), timeout=600)
    bk = pl.run(['go', 'build', '-o', os.path.join(kd, 'bin_k'), '.'], cwd=kd, env=wenv(), timeout=600)
    if bw.returncode != 0:
        res['status'] = 'wire-side-does-not-compile'
        res['notes'].append(bw.stderr[-600:])
        return res
    if bk.returncode != 0:
        mig['compiles'] = False
        mig['diag'] = re.sub(r'[\w/.-]*/', '', bk.stderr.strip().splitlines()[1] if len(bk.stderr.strip().splitlines()) > 1 else bk.stderr)[:200]
        res['status'] = 'kessoku-side-does-not-compile'
        res['notes'].append(bk.stderr[-800:])
        return res
    for which, inj in enumerate(injnames, 1):
        ab = wg.abstract(spec, which)
        fallibles = [p['id'] for p in ab['providers'] if p['kind'] == 'fn' and p['fallible']]
        for fail in [''] + fallibles:
            env = dict(os.environ)
            env['FAIL'] = fail
            env['INJ'] = inj
            rw = subprocess.run([os.path.join(d, 'bin_w')], env=env, capture_output=True, text=True, timeout=60)
            rk = subprocess.run([os.path.join(kd, 'bin_k')], env=env, capture_output=True, text=True, timeout=60)
            try:
                ow = json.loads(rw.stdout)
                ok = json.loads(rk.stdout)
            except ValueError:
                res['status'] = 'driver-crash'
                res['notes'].append((rw.stderr[-300:], rk.stderr[-300:]))
                return res
            for o in (ow, ok):
                o['calls'] = o['calls'] or []
            res['pairs'].append({'ev': 'Pair', 'cfg': ab['id'], 'fail': fail, 'wire': ow, 'kessoku': ok, 'kparams': kparams_of[inj]})
    return res


# ---------------------------------------------------------------------------------------------------------------------
# invalid inputs (C14): each must make migrate exit non-zero and write nothing

def invalid_cases(rng, base_spec):
    out = []
    for kind in ('syntax', 'type', 'dupset', 'dupset-two-packages', 'missing-constructor', 'mixed-packages'):
        s = wg.random_spec(rng, 'x' + kind.replace('-', '')[:6], nmin=3, nmax=4)
        out.append((kind, s))
    return out


def break_pkg(kind, spec, root):
    d = os.path.join(root, spec['id'])
    if kind == 'syntax':
        p = os.path.join(d, 'wire.go')
        open(p, 'a').write('\nfunc broken( {\n')
    elif kind == 'type':
        open(os.path.join(d, 'zz.go'), 'w').write('package main\n\nvar brokenType int = "not an int"\n')
    elif kind == 'dupset':
        open(os.path.join(d, 'zz.go'), 'w').write('package main\n\nimport "github.com/google/wire"\n\nvar DupSet = wire.NewSet(NewApp)\n')
        open(os.path.join(d, 'zy.go'), 'w').write('package main\n\nimport "github.com/google/wire"\n\nvar DupSet = wire.NewSet(NewApp)\n')
    elif kind == 'dupset-two-packages':
        # two directories holding `package config`, both declaring ProviderSet; the first one is the first result
        for sub in ('alpha/config', 'beta/config'):
            os.makedirs(os.path.join(d, sub), exist_ok=True)
            open(os.path.join(d, sub, 'c.go'), 'w').write('package config\n\nimport "github.com/google/wire"\n\ntype C struct{}\n\nfunc NewC() *C { return &C{} }\n\nvar ProviderSet = wire.NewSet(NewC)\n')
    elif kind == 'missing-constructor':
        open(os.path.join(d, 'zz.go'), 'w').write('package main\n\nimport "github.com/google/wire"\n\ntype Zi interface{ Z() }\ntype Zimpl struct{}\n\nfunc (z *Zimpl) Z() {}\n'
                                                   'func MakeZimpl() *Zimpl { return &Zimpl{} }\n\nvar ZProv = wire.NewSet(MakeZimpl)\n\nvar ZSet = wire.NewSet(wire.Bind(new(Zi), new(*Zimpl)))\n')
    elif kind == 'mixed-packages':
        os.makedirs(os.path.join(d, 'other'), exist_ok=True)
        open(os.path.join(d, 'other', 'o.go'), 'w').write('package other\n\nimport "github.com/google/wire"\n\ntype O struct{}\n\nfunc NewO() *O { return &O{} }\n\nvar OSet = wire.NewSet(NewO)\n')


def tlc_mig(w, cfgs, lines, name):
    r = pl.tlc(w, 'MigrateTrace', 'MigrateTrace.cfg', files={'cfgs.json': json.dumps(cfgs), 'mig.ndjson': '\n'.join(json.dumps(x) for x in lines) + '\n'},
               workers=1, timeout=3000, name=name, java_opts='-Xss256m')
    vp = os.path.join(r['dir'], 'viol.json')
    if r['rc'] != 0 or not os.path.exists(vp):
        raise pl.ExitTwo('MigrateTrace validation failed (rc=%s): %s %s' % (r['rc'], r['out'][-2500:], r['err'][-600:]))
    vj = json.load(open(vp))
    if vj['lines'] != len(lines):
        raise pl.ExitTwo('MigrateTrace consumed %d of %d lines' % (vj['lines'], len(lines)))
    st, _ = pl.tlc_stats(r['out'])
    return vj, st


def alias_model_and_replay(w, rep, maxlen):
    """TLC explores AliasImpl.tla (TypeConverter.AddImport as implemented) over every request history and checks the
    bijection requirement; all histories are replayed into the real TypeConverter in a scratch copy of the tree."""
    cfg = open(os.path.join(pl.VERIF, 'spec', 'Alias.cfg')).read().replace('MaxLen = 5', 'MaxLen = %d' % maxlen)
    r = pl.tlc(w, 'AliasMC', 'AliasRun.cfg', files={'AliasRun.cfg': cfg}, workers=1, timeout=3000, name='alias')
    ok = 'Model checking completed. No error has been found' in r['out']
    if not ok:
        cfg2 = cfg.replace('INVARIANT Bijective\n', '')
        r2 = pl.tlc(w, 'AliasMC', 'AliasRun.cfg', files={'AliasRun.cfg': cfg2}, workers=1, timeout=3000, name='alias2')
        hp = os.path.join(r2['dir'], 'alias_histories.json')
    else:
        hp = os.path.join(r['dir'], 'alias_histories.json')
    if not os.path.exists(hp):
        raise pl.ExitTwo('TLC produced no alias histories: ' + r['out'][-2000:])
    gen, dist = pl.tlc_stats(r['out'])
    hist = json.load(open(hp))['histories']
    copy = w.path('repo-copy-alias')
    shutil.copytree(pl.REPO, copy, ignore=shutil.ignore_patterns('.git'))
    shutil.copy(os.path.join(pl.VERIF, 'harness', 'inpkg', 'verif_alias_test.go.txt'), os.path.join(copy, 'internal', 'migrate', 'verif_alias_test.go'))
    hin, hout = w.path('alias-in.json'), w.path('alias-out.json')
    json.dump({'histories': hist}, open(hin, 'w'))
    env = pl.go_env({'VERIF_HISTORIES': hin, 'VERIF_REPLAY_OUT': hout}, scratch=False)
    p = pl.run(['go', 'test', '-vet=off', '-count=1', '-run', 'TestVerifAliasReplay', './internal/migrate/'], cwd=copy, env=env, timeout=900)
    if p.returncode != 0 or not os.path.exists(hout):
        raise pl.ExitTwo('alias replay test failed: %s %s' % (p.stdout[-1500:], p.stderr[-1500:]))
    summ = json.load(open(hout))
    reasons = {}
    for v in summ['violations'] or []:
        reasons.setdefault(v['why'], v)
    for why, v in reasons.items():
        rep.found('C14.alias|%s' % why, 'real TypeConverter.AddImport: %s after %s -> %s' % (why, json.dumps(v['history'][: v['step'] + 1]), v['got']), v)
    if not ok and not summ['violations']:
        rep.problem('AliasImpl.tla violates Bijective but the real allocator does not on the replayed histories: the model no longer mirrors the code')
    if summ['mismatches']:
        rep.notes.append('real AddImport differs from AliasImpl.tla (outside the modelled design; requirement checked directly): %s' % json.dumps(summ['mismatches'][0])[:300])
    return {'states': dist, 'histories_replayed': summ['histories'], 'requests_replayed': summ['steps'], 'model_conforms': not summ['mismatches'],
            'sample_history': hist[len(hist) // 3]}


def configs(tier, sd):
    rng = random.Random(sd * 7 + 13)
    quick = tier == 'quick'
    out = []
    n = 36 if quick else 300
    for i in range(n):
        out.append(wg.random_spec(rng, 'c%03d' % i, nmin=3, nmax=6 if quick else 7, external=(i % 3 == 2),
                                  decoy=(i % 12 == 8), struct_value_form=(i % 12 == 5)))
    return out, rng


def main(prop, tier):
    rep = Report(prop, tier, 'translation_validation' if prop == 'C13' else 'exploration')
    quick = tier == 'quick'
    try:
        pl.build_tools()
        sd = seed()
        specs, rng = configs(tier, sd)
        with pl.Work(prop) as w:
            cli = pl.build_cli(w)
            root = setup_root(w, 'wroot')
            wire = build_wire(w, root)
            nrep = 2 if quick else 4
            results = pl.pmap(lambda s: run_config(cli, wire, root, s, nrep), specs, workers=12)
            byid = {s['id']: s for s in specs}
            status = collections.Counter(r['status'] for r in results)
            rejects = collections.Counter(re.sub(r'"[^"]*"', 'X', r.get('why', '')) for r in results if r['status'] == 'wire-rejects')
            cfgs = []
            for r in results:
                if r['status'] != 'wire-rejects':
                    cfgs.append(wg.abstract(byid[r['id']]))
                    if byid[r['id']].get('injector2'):
                        cfgs.append(wg.abstract(byid[r['id']], 2))
            lines = []
            for r in results:
                if r['mig'] and prop == 'C14':
                    lines.append(r['mig'])
                if prop == 'C13':
                    lines += r['pairs']
            invalid = []
            if prop == 'C14':
                for kind, s in invalid_cases(rng, None):
                    for preexisting in (False, True):
                        s2 = json.loads(json.dumps(s))
                        s2['id'] = s['id'] + ('p' if preexisting else 'n')
                        s2['injector']['name'] = 'Init' + s2['id'].capitalize()
                        wg.write_pkg(s2, root)
                        break_pkg(kind, s2, root)
                        d = os.path.join(root, s2['id'])
                        kp = os.path.join(d, 'kessoku.go') if kind != 'mixed-packages' else os.path.join(d, 'kessoku.go')
                        before = ''
                        if preexisting:
                            open(kp, 'w').write('package main\n\n// earlier output\n')
                            before = open(kp).read()
                        pats = ['.'] if kind != 'mixed-packages' else ['.', './other']
                        if kind == 'dupset-two-packages':
                            pats = ['./alpha/config', './beta/config']
                        pm = pl.run([cli, 'migrate', '-o', 'kessoku.go'] + pats, cwd=d, env=wenv(), timeout=300)
                        wrote = os.path.exists(kp) and open(kp).read() != before
                        errl = [ln for ln in pm.stderr.splitlines() if 'level=INFO' not in ln and 'level=WARN' not in ln]
                        rec = {'ev': 'Mig', 'cfg': s2['id'], 'fail': '', 'kind': kind + (':preexisting' if preexisting else ''), 'expectok': False,
                               'exit': pm.returncode, 'wrote': wrote, 'gofmt': True, 'compiles': True, 'diag': '\n'.join(errl)[-200:], 'sets': [], 'wantsets': [], 'hashes': []}
                        lines.append(rec)
                        invalid.append(rec)
            alias = None
            if prop == 'C14':
                alias = alias_model_and_replay(w, rep, 4 if quick else 5)
            if not lines:
                raise pl.ExitTwo('nothing to validate: %s' % dict(status))
            vj, st = tlc_mig(w, cfgs, lines, 'mig')
            groups = collections.defaultdict(list)
            for v in vj['viol']:
                if v['clause'].startswith('SPEC.'):
                    rep.problem('WireSem.tla disagrees with real google/wire on configuration %s (%s): the specification is wrong, not kessoku: %s'
                                % (v['cfg'], v['clause'], v['detail'][:200]))
                    continue
                if not v['clause'].startswith(prop):
                    continue
                spec = byid.get(v['cfg'].split('#')[0])
                feat = features(spec) if spec else ''
                det = v['detail'] if v['clause'] in ('C14.refused', 'C14.compile', 'C14.accepted', 'C14.wrote-on-failure') else ''
                det = re.sub(r'[A-Z]?[a-z]*[A-Z]\d+\b', 'X', det)[:80]
                groups['%s|%s|%s' % (v['clause'], feat if v['clause'].startswith('C13') else '', det)].append(v)
            for sig, occ in sorted(groups.items()):
                v = occ[0]
                sp = byid.get(v['cfg'].split('#')[0])
                files = {}
                if sp:
                    cdir = v['cfg'].split('#')[0]
                    for fn in glob.glob(os.path.join(root, cdir, '*.go')) + glob.glob(os.path.join(root, cdir + '_k', 'kessoku*.go')):
                        if not fn.endswith('main.go'):
                            files[os.path.relpath(fn, root)] = open(fn).read()[:6000]
                rep.found(sig, '%s: %d record(s); first cfg %s fail=%r detail=%s' % (sig, len(occ), v['cfg'], v['fail'], v['detail'][:200]),
                          {'violation': v, 'spec': sp, 'files': files})
            # statuses that are not observations of a pair
            for r in results:
                if r['status'] in ('generator-refuses', 'no-injector', 'undrivable', 'kessoku-side-does-not-compile', 'migrate-refuses') and prop == 'C13':
                    spec = byid[r['id']]
                    rep.found('C13.%s|%s' % (r['status'], features(spec)), 'configuration %s: %s %s' % (r['id'], r['status'], json.dumps(r['notes'])[:500]),
                              {'spec': spec, 'notes': r['notes']})
                if r['status'] in ('wire-side-does-not-compile', 'driver-crash'):
                    rep.problem('harness: configuration %s: %s %s' % (r['id'], r['status'], json.dumps(r['notes'])[:600]))
            npairs = len([x for x in lines if x['ev'] == 'Pair'])
            sample = next((x for x in lines if x['ev'] == 'Pair'), lines[0])
            if prop == 'C13':
                rep.cov.update({'programs': len([r for r in results if r['pairs']]), 'disagreements_checked': npairs,
                                'samples': [{'config': wg.abstract(byid[sample['cfg'].split('#')[0]], 2 if '#2' in sample['cfg'] else 1), 'record': sample}] if sample['ev'] == 'Pair' else [sample],
                                'configurations': len(specs), 'status': dict(status), 'wire_rejects': dict(rejects), 'states': st,
                                'evaluations': npairs, 'distinct_nontrivial': len([r for r in results if r['pairs']])})
            else:
                rep.cov.update({'evaluations': len(lines), 'distinct_nontrivial': len(specs) + len(invalid),
                                'rule': 'one evaluation = one migrate run record (valid configuration: gofmt, compile with wire files set aside, set names, hashes over repeated runs; invalid input: exit status and output file)',
                                'samples': [lines[0], invalid[0] if invalid else lines[-1]], 'configurations': len(specs), 'invalid_inputs': len(invalid),
                                'status': dict(status), 'states': st + (alias or {}).get('states', 0), 'alias_allocator': alias, 'exhaustive': False})
            rep.assumptions += ['google/wire v0.7.0 from the module cache is the reference; configurations wire rejects are not counted',
                                'single failing provider per run; provider bodies are the harness\'s']
    except pl.ExitTwo as e:
        rep.problem(str(e))
    except Exception:
        import traceback
        rep.problem('internal error: ' + traceback.format_exc()[-3000:])
    return rep.finish()


def features(spec):
    if not spec:
        return ''
    kinds = sorted({e['kind'] for e in spec['elems']})
    f = []
    if any(x.get('decoy') for x in spec['funcs']):
        f.append('bind-decoy-constructor')
    if any(not t.startswith('*') and spec['types'].get(t, {}).get('form') == 'bstruct' for fn in spec['funcs'] for t in fn['requires']):
        f.append('struct-value-form')
    if spec.get('alias'):
        f.append('external')
    return '+'.join(f) or 'plain'


if __name__ == '__main__':
    sys.exit(main(sys.argv[1], sys.argv[2] if len(sys.argv) > 2 else 'quick'))
