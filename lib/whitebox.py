"""White-box path: extract program IRs from generated files, model-check them with spec/Injector.tla."""
import os
import json
import pipeline as pl
import declspace as ds


def split_ret(kind):
    """'zero,err' -> (rval, rerr)"""
    parts = kind.split(',') if kind else []
    if not parts:
        return 'none', 'nil'
    e = parts[-1]
    rerr = {'err': 'err', 'ctx.Err()': 'ctx', 'nil': 'nil'}.get(e, 'other')
    rval = parts[0] if len(parts) > 1 else 'none'
    return rval, rerr


def type_name(texpr):
    if texpr == 'context.Context':
        return 'ctx'
    return texpr.lstrip('*')


def extract(pkgdir, decl, genfile='k_band.go.orig'):
    """Program IR (dict) of decl's injector; raises ExitTwo if the tool itself fails."""
    path = os.path.join(pkgdir, genfile)
    if not os.path.exists(path):
        path = os.path.join(pkgdir, 'k_band.go')
    p = pl.run([pl.tool('extract'), path, decl['injector'], decl['id']], timeout=60)
    if p.returncode != 0:
        raise pl.ExitTwo('extract failed on %s: %s' % (path, p.stderr))
    prog = json.loads(p.stdout)
    for th in prog['threads']:
        for ins in th:
            kind = ''
            if ins['op'] == 'wait':
                kind = ins['onctx']
            elif ins['op'] == 'call':
                ek = ins['errck']
                if ek.startswith('ret:'):
                    kind = ek[4:]
                    ins['errck'] = 'ret'
            elif ins['op'] == 'egwait':
                kind = ins['onctx']
            rval, rerr = split_ret(kind)
            ins['rval'], ins['rerr'] = rval, rerr
    prog['ptype'] = [[n, type_name(t)] for n, t in prog['params']]
    vs = list(prog['vars'])
    for th in prog['threads']:
        for ins in th:
            for v in (ins['rets'] if ins['op'] == 'call' else [ins['dst']] if ins['op'] == 'field' else []):
                if v != '_' and v not in vs:
                    vs.append(v)
    prog['vars'] = vs
    vz = {'_': 'zero'}
    vt = dict((n, t) for n, t in prog.get('vartypes', []))
    for v in vs + [n for n, _ in prog['params']]:
        t = vt.get(v, '')
        base = t.lstrip('*').split('.')[-1]
        form = decl['types'].get(base, {}).get('form', '')
        vz[v] = 'nil' if (t.startswith('*') or form == 'iface') else 'zero'
    prog['vzero'] = vz
    return prog


def model_check(work, decls, progs, modes=None, chunk=None, timeout=1800, name='mc'):
    """Run TLC on Injector.tla over the modelled programs, in parallel chunks (one TLC process, one worker, each).
    Returns (flags, states, transitions, per-chunk outputs)."""
    items = [(d, p) for d, p in zip(decls, progs) if not p['unmodelled']]
    if not items:
        return [], 0, 0, []
    n = len(items)
    nchunks = min(pl.NCPU, max(1, (n + 7) // 8)) if chunk is None else max(1, (n + chunk - 1) // chunk)
    chunks = [items[i::nchunks] for i in range(nchunks)]

    def one(ci):
        its = chunks[ci]
        dd = [ds.tla_decl(d) for d, _ in its]
        pp = []
        for k, (d, p) in enumerate(its):
            q = dict(p)
            q['declidx'] = k + 1
            pp.append(q)
        files = {'decls.json': json.dumps(dd), 'progs.json': json.dumps(pp)}
        cfg = 'Injector.cfg'
        if modes == 'none':
            cfg = 'InjectorFaultFree.cfg'
        r = pl.tlc(work, 'Injector', cfg, files=files, workers=1, timeout=timeout, name='%s-%d' % (name, ci))
        out = os.path.join(r['dir'], 'model_out.json')
        flags = []
        if os.path.exists(out):
            flags = json.load(open(out))['flags']
        return r, flags

    res = pl.pmap(one, range(nchunks), workers=min(nchunks, 10))
    flags = []
    states = trans = 0
    outs = []
    for r, fl in res:
        if r['rc'] != 0 or 'Model checking completed' not in r['out']:
            raise pl.ExitTwo('TLC failed on Injector.tla (rc=%s):\n%s\n%s' % (r['rc'], r['out'][-3000:], r['err'][-2000:]))
        g, dist = pl.tlc_stats(r['out'])
        states += dist
        trans += g
        flags.extend(fl)
        outs.append(r['out'])
    return flags, states, trans, outs


def visible(evs):
    """project one recorded execution onto the events InjectorTrace.tla consumes"""
    out = []
    mode = ''
    for e in evs:
        k = e['ev']
        if k == 'Call':
            mode = e.get('mode', '')
            if e.get('pre'):
                out.append({'ev': 'Cancel'})
        elif k == 'Enter':
            out.append({'ev': 'Enter', 'p': e['p'], 'args': e['args']})
        elif k == 'Exit':
            out.append({'ev': 'Exit', 'p': e['p'], 'ok': e['ok']})
        elif k == 'Cancel':
            out.append({'ev': 'Cancel'})
        elif k == 'Return':
            out.append({'ev': 'Return', 'site': e['site'], 'cls': e['cls'], 'term': e['term']})
        elif k == 'Hang':
            out.append({'ev': 'Hang'})
        elif k == 'Panic':
            return None, mode
    out.append({'ev': 'End'})
    m = {'none': [], 'fail': ['fail'], 'cancel': ['cancel'], 'failcancel': ['fail', 'cancel']}.get(mode, ['fail', 'cancel'])
    return out, m


def trace_validate(work, decls, progs, traces_by_decl, per_prog=6, cap=600, timeout=1800, name='wt'):
    """White-box validation of real executions against the extracted programs (InjectorTrace.tla).
    traces_by_decl: {decl id: [event lists]}.  -> (validated, states, failures [(decl id, trace index, position)])"""
    items = [(d, p) for d, p in zip(decls, progs) if not p['unmodelled'] and traces_by_decl.get(d['id'])]
    if not items:
        return 0, 0, []
    nchunks = min(pl.NCPU, max(1, len(items) // 4))
    chunks = [items[i::nchunks] for i in range(nchunks)]
    budget = max(1, cap // max(1, len(items)))

    def one(ci):
        its = chunks[ci]
        dd, pp, tt, owner = [], [], [], []
        for k, (d, p) in enumerate(its):
            dd.append(ds.tla_decl(d))
            q = dict(p)
            q['declidx'] = k + 1
            pp.append(q)
            trs = traces_by_decl[d['id']]
            # spread over the recorded executions (they are ordered by mode)
            step = max(1, len(trs) // min(per_prog, budget, len(trs)))
            for evs in trs[::step][: min(per_prog, budget)]:
                vis, mode = visible(evs)
                if vis is None:
                    continue
                tt.append({'prog': k + 1, 'mode': mode, 'events': vis})
                owner.append(d['id'])
        if not tt:
            return 0, 0, []
        r = pl.tlc(work, 'InjectorTrace', 'InjectorTrace.cfg', files={'decls.json': json.dumps(dd), 'progs.json': json.dumps(pp),
                                                                      'wtraces.json': json.dumps(tt)},
                   workers=1, timeout=timeout, name='%s-%d' % (name, ci), java_opts='-Xss256m')
        outp = os.path.join(r['dir'], 'wtrace_out.json')
        if not os.path.exists(outp):
            raise pl.ExitTwo('InjectorTrace.tla failed (rc=%s):\n%s\n%s' % (r['rc'], r['out'][-3000:], r['err'][-1500:]))
        o = json.load(open(outp))
        _, dist = pl.tlc_stats(r['out'])
        fails = []
        reached = o['reached']
        if reached[0] <= len(tt):
            fails.append((owner[reached[0] - 1], reached[0], reached[1], tt[reached[0] - 1]['events'][max(0, reached[1] - 2): reached[1] + 1]))
        return len(tt) if not fails else reached[0] - 1, dist, fails

    res = pl.pmap(one, range(nchunks), workers=min(nchunks, 10))
    return sum(r[0] for r in res), sum(r[1] for r in res), [f for r in res for f in r[2]]
