"""Verdict vocabulary, known findings, evidence files."""
import os
import re
import sys
import json
import time
import hashlib

VERIF = '/verif'
EVDIR = os.environ.get('VERIF_EVIDENCE_DIR', os.path.join(VERIF, 'evidence'))


def seed():
    try:
        return int(os.environ.get('VERIF_SEED', '1'))
    except ValueError:
        return 1


def load_known():
    """-> (open: {sig: (property, id, text)}, fixed: [lines])"""
    opn, fixed = {}, []
    path = os.path.join(VERIF, 'known_findings.txt')
    if not os.path.exists(path):
        return opn, fixed
    for ln in open(path):
        ln = ln.strip()
        if not ln or ln.startswith('#'):
            continue
        if ln.startswith('open:'):
            m = re.match(r'open:\s+property=(\S+)\s+id=(\S+)\s+sig=(.*?)\s+::\s+(.*)$', ln)
            if m:
                opn[m.group(3)] = (m.group(1), m.group(2), m.group(4))
        elif ln.startswith('fixed:'):
            fixed.append(ln)
    return opn, fixed


class Report:
    """Collects observations of one check run and turns them into stdout lines, an evidence file and an exit code."""

    def __init__(self, prop, tier, level):
        self.prop = prop
        self.tier = tier
        self.level = level
        self.t0 = time.time()
        self.cov = {}
        self.assumptions = []
        self.violations = []   # (sig, what, replay dict)
        self.known_hit = {}    # sig -> what
        self.problems = []     # machinery problems -> exit 2
        self.notes = []

    def problem(self, msg):
        self.problems.append(msg)

    def found(self, sig, what, replay=None):
        """A violation reproduced on the real code, identified by blame signature sig."""
        opn, _ = load_known()
        if sig in opn and opn[sig][0] == self.prop:
            self.known_hit.setdefault(sig, (opn[sig][1], opn[sig][2], what, replay))
        else:
            if not any(v[0] == sig for v in self.violations):
                self.violations.append((sig, what, replay))

    def finish(self):
        wall = time.time() - self.t0
        os.makedirs(os.path.join(EVDIR, 'replays'), exist_ok=True)
        lines = []
        for sig, (kid, text, what, replay) in sorted(self.known_hit.items()):
            lines.append('KNOWN-FINDING: property=%s id=%s sig=%s :: %s' % (self.prop, kid, sig, text))
            with open(os.path.join(EVDIR, 'replays', '%s.json' % kid), 'w') as f:
                json.dump({'property': self.prop, 'signature': sig, 'what': what, 'known_finding': kid, 'replay': replay}, f, indent=1)
        for sig, what, replay in self.violations:
            h = hashlib.sha1(sig.encode()).hexdigest()[:10]
            rp = os.path.join(EVDIR, 'replays', '%s-%s.json' % (self.prop, h))
            with open(rp, 'w') as f:
                json.dump({'property': self.prop, 'signature': sig, 'what': what, 'replay': replay}, f, indent=1)
            lines.append('VIOLATION property=%s replay=%s' % (self.prop, rp))
            lines.append('  signature: %s' % sig)
            lines.append('  what: %s' % what)
        ev = {'property_id': self.prop, 'tier': self.tier, 'seed': seed(), 'level': self.level,
              'coverage': self.cov, 'assumptions': self.assumptions, 'wall_s': round(wall, 2),
              'violations': len(self.violations),
              'known_findings_reproduced': sorted(k for k in self.known_hit),
              'notes': self.notes, 'problems': self.problems}
        with open(os.path.join(EVDIR, '%s.json' % self.prop), 'w') as f:
            json.dump(ev, f, indent=1)
        for ln in lines:
            print(ln)
        if self.violations:
            print('RESULT property=%s tier=%s: VIOLATED (%d new signature(s)), %.1fs' % (self.prop, self.tier, len(self.violations), wall))
            return 1
        if self.problems:
            for p in self.problems:
                print('MACHINERY-PROBLEM: ' + p.replace('\n', '\n    '))
            print('RESULT property=%s tier=%s: UNDECIDED (machinery problem), %.1fs' % (self.prop, self.tier, wall))
            return 2
        print('RESULT property=%s tier=%s: held on everything explored (%d known finding(s) reproduced), %.1fs'
              % (self.prop, self.tier, len(self.known_hit), wall))
        return 0
