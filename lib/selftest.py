"""Binding demonstrations (DESIGN.md 6): each binding between a specification and the code is shown to REJECT a corrupted
observation, so that 'accepted' means something.  Not a property check: it decides nothing about /repo; it exits 0 when
every corruption is rejected and every uncorrupted observation accepted, 1 otherwise.

  1. PlannerCheck.tla   : plan view of the generated files = planned view; one wait dropped / two calls swapped / a field read
                          moved in front of its struct's call in the extracted view -> that declaration is listed as different
  2. InjectorTrace.tla  : recorded real executions are behaviours of the extracted program; the same executions with two
                          visible events swapped, an Exit turned into a failure, or the returned term altered -> rejected
  3. Injector.tla       : the extracted program explored as is -> no C01 flag; the same program with its waits removed ->
                          C01.race / C01.order flagged (the model is sensitive to exactly what the extractor reads)
"""
import os
import sys
import json
import copy
import random
import collections

sys.path.insert(0, os.path.dirname(os.path.abspath(__file__)))
import pipeline as pl
import declspace as ds
import whitebox as wb
import design


def pick_decls(seed, n=6):
    rng = random.Random(seed)
    out = []
    i = 0
    while len(out) < n and i < 2000:
        i += 1
        d = ds.random_decl(rng, 's%d' % i, nmin=4, nmax=6, p_async=0.7, p_fallible=0.0, constructs=True, ensure_async=True)
        if not design.in_planner_domain(d) or d.get('group'):
            continue
        if any(t.get('form') == 'ctxval' for t in d['types'].values()):
            continue
        out.append(d)
    return out


def main():
    seed = int(os.environ.get('VERIF_SEED', '1'))
    fails = []
    okc = []
    with pl.Work('selftest') as w:
        cli = pl.build_cli(w)
        pl.build_tools()
        cand = pick_decls(seed, 24)
        root = pl.make_scratch(w, cand, 'st')
        gen = pl.generate_all(cli, root, cand)
        cand = [d for d in cand if gen[d['id']][0] == 0]
        progs = {d['id']: wb.extract(os.path.join(root, d['id']), d, genfile='k_band.go') for d in cand}
        # keep declarations whose program has a goroutine with a wait (something to corrupt)
        def has_wait(p):
            return any(ins['op'] == 'wait' for th in p['threads'] for ins in th)
        decls = [d for d in cand if has_wait(progs[d['id']]) and not progs[d['id']]['unmodelled'] and len(progs[d['id']]['threads']) <= 5][:5]
        if len(decls) < 3:
            print('selftest: not enough declarations with waits (seed %d)' % seed)
            return 2

        # ---- 1. PlannerCheck ------------------------------------------------------------------------------------
        n, diff = design.planner_conformance(w, decls, progs, name='st-pc0')
        (okc if not diff else fails).append('PlannerCheck accepts the %d generated programs as planned (differences: %s)' % (n, diff))
        bad = {}
        kinds = []
        for k, d in enumerate(decls):
            p = copy.deepcopy(progs[d['id']])
            if k % 2 == 0:
                # drop the waits in front of the first call that has any (the view is per producer, not per channel: dropping
                # one of two waits on results of the same producer would not show)
                for th in p['threads']:
                    idx = [j for j, ins in enumerate(th) if ins['op'] == 'wait']
                    if idx:
                        j = idx[0]
                        while j < len(th) and th[j]['op'] == 'wait':
                            del th[j]
                        break
                kinds.append('waits dropped')
            else:
                # swap the first two calls of the longest thread (or move a call to another thread)
                th = max(p['threads'], key=lambda t: sum(1 for ins in t if ins['op'] in ('call', 'field')))
                idx = [j for j, ins in enumerate(th) if ins['op'] in ('call', 'field')]
                if len(idx) >= 2:
                    th[idx[0]], th[idx[1]] = th[idx[1]], th[idx[0]]
                    kinds.append('calls swapped')
                else:
                    other = [t for t in p['threads'] if t is not th][0]
                    other.insert(0, th.pop(idx[0]))
                    kinds.append('call moved to another thread')
            bad[d['id']] = p
        n, diff = design.planner_conformance(w, decls, bad, name='st-pc1')
        missed = [d['id'] for d in decls if d['id'] not in diff]
        (okc if not missed else fails).append('PlannerCheck rejects %d of %d corrupted views (%s); not rejected: %s'
                                              % (len(decls) - len(missed), len(decls), ', '.join(sorted(set(kinds))), missed))

        # ---- 3. Injector.tla on the extracted programs, intact and with one wait removed ------------------------
        plist = [progs[d['id']] for d in decls]
        flags, st, tr, _ = wb.model_check(w, decls, plist, modes='none', name='st-mc0')
        c01 = [f for f in flags if f['f']['clause'].startswith('C01.')]
        (okc if not c01 else fails).append('Injector.tla finds no C01 flag on the %d extracted programs (%d states)' % (len(plist), st))
        blist = []
        for d in decls:
            p = copy.deepcopy(progs[d['id']])
            # (a single wait can be redundant - another wait or the goroutine's start already orders the write - so all go)
            p['threads'] = [[ins for ins in th if ins['op'] != 'wait'] for th in p['threads']]
            blist.append(p)
        flags, st, tr, _ = wb.model_check(w, decls, blist, modes='none', name='st-mc1')
        flagged = {f['prog'] for f in flags if f['f']['clause'] in ('C01.race', 'C01.order')}
        missed = [d['id'] for d in decls if d['id'] not in flagged]
        (okc if not missed else fails).append('Injector.tla flags C01.race / C01.order on %d of %d programs with their waits removed; not flagged: %s'
                                              % (len(decls) - len(missed), len(decls), missed))

        # ---- 2. InjectorTrace: real executions, intact and corrupted ------------------------------------------
        ids = [d['id'] for d in decls]
        dg = pl.drivergen_all(root, ids)
        ids = [i for i in ids if dg[i][0] == 0]
        # the driver executes k_band.go; the program must be extracted from the file that is executed
        progs2 = {i: wb.extract(os.path.join(root, i), next(d for d in decls if d['id'] == i)) for i in ids}
        built = pl.build_drivers(root, ids, race=False)
        ids = [i for i in ids if not built[i]]
        tbd = collections.defaultdict(list)
        for i in ids:
            r = pl.run_driver(root, i, modes='none,cancel', maxruns=12, seed=seed, timeout=300, decl=i)
            if not os.path.exists(r['trace']):
                continue
            by = collections.defaultdict(list)
            for ln in open(r['trace']):
                if ln.strip():
                    ev = json.loads(ln)
                    by[ev['tr']].append(ev)
            for tr_, evs in sorted(by.items()):
                if evs and evs[0].get('ev') == 'Call':
                    tbd[i].append(evs)
        dsel = [d for d in decls if tbd.get(d['id'])]
        if not dsel:
            print('selftest: no real execution recorded')
            return 2
        psel = [progs2[d['id']] for d in dsel]
        ok_n, st, wfail = wb.trace_validate(w, dsel, psel, tbd, per_prog=4, cap=400, name='st-wt0')
        (okc if ok_n and not wfail else fails).append('InjectorTrace.tla explains %d real executions of %d programs (failures: %s)' % (ok_n, len(dsel), wfail[:2]))

        def corrupt(evs, how):
            evs = copy.deepcopy(evs)
            vis = [j for j, e in enumerate(evs) if e['ev'] in ('Enter', 'Exit')]
            if how == 'swap':
                # an Exit moved in front of its own Enter
                for a in range(len(vis) - 1):
                    ea, eb = evs[vis[a]], evs[vis[a + 1]]
                    if ea['ev'] == 'Enter' and eb['ev'] == 'Exit' and ea['p'] == eb['p']:
                        evs[vis[a]], evs[vis[a + 1]] = eb, ea
                        return evs
                return None
            if how == 'fail':
                for j in vis:
                    if evs[j]['ev'] == 'Exit' and evs[j].get('ok'):
                        evs[j]['ok'] = False
                        return evs
                return None
            if how == 'term':
                for e in evs:
                    if e['ev'] == 'Return' and e.get('term'):
                        e['term'] = e['term'] + '#corrupted'
                        return evs
                return None
            if how == 'drop':
                # the last provider is never entered, yet the injector returns its value
                ent = [j for j in vis if evs[j]['ev'] == 'Enter']
                if ent:
                    p_ = evs[ent[-1]]['p']
                    return [e for e in evs if not (e['ev'] in ('Enter', 'Exit') and e.get('p') == p_)]
                return None
        # one corrupted execution per TLC run: a run stops at the first execution it cannot explain
        jobs = []
        for how in ('swap', 'fail', 'term', 'drop'):
            for d in dsel:
                c = [corrupt(evs, how) for evs in tbd[d['id']] if evs[0].get('mode', 'none') == 'none']
                c = [x for x in c if x]
                if c:
                    jobs.append((how, d, c[0]))
        def one(job):
            how, d, evs = job
            ok_n, st, wfail = wb.trace_validate(w, [d], [progs2[d['id']]], {d['id']: [evs]}, per_prog=1, cap=10, name='st-wt-%s-%s' % (how, d['id']))
            return how, d['id'], bool(wfail)
        res = pl.pmap(one, jobs, workers=8)
        for how in ('swap', 'fail', 'term', 'drop'):
            rr = [r for r in res if r[0] == how]
            if not rr:
                fails.append('no execution could be corrupted by %s' % how)
                continue
            rej = [r for r in rr if r[2]]
            (okc if len(rej) == len(rr) else fails).append('InjectorTrace.tla rejects %d of %d executions corrupted by "%s"; accepted: %s'
                                                           % (len(rej), len(rr), how, [r[1] for r in rr if not r[2]]))
    for m in okc:
        print('ok   ' + m)
    for m in fails:
        print('FAIL ' + m)
    print('selftest: %d binding demonstrations passed, %d failed' % (len(okc), len(fails)))
    return 1 if fails else 0


if __name__ == '__main__':
    try:
        sys.exit(main())
    except pl.ExitTwo as e:
        print('selftest: machinery error: %s' % e)
        sys.exit(2)
