"""Adversarial user packages for C04 / C12: a type universe (named, external with default / aliased / colliding imports,
pointer, slice, array, map, chan with directions, func incl. variadic and no-result, anonymous struct, interface,
generic instances, aliases) x names adversarial to the allocator x sync/async x error/no error x nillable or not
x 1..3 injectors per file x 1..3 files per invocation.  Every case is valid input: the user's package compiles without
the generated files (checked), so any diagnostic after generation is the generator's."""
import os
import re
import json
import random
import hashlib
import collections

import pipeline as pl
import declspace as ds

# (key, type expression, imports needed {path: alias or ''}, declarations needed, nillable)
TYPES = [
    ('ptrstruct', '*Foo', {}, 'type Foo struct{ N int }', True),
    ('valstruct', 'Bar', {}, 'type Bar struct{ S string }', False),
    ('namedbasic', 'Count', {}, 'type Count int', False),
    ('string', 'string', {}, '', False),
    ('int', 'int', {}, '', False),
    ('bool', 'bool', {}, '', False),
    ('extptr', '*bytes.Buffer', {'bytes': ''}, '', True),
    ('extval', 'time.Duration', {'time': ''}, '', False),
    ('extalias', '*tt.Template', {'text/template': 'tt'}, '', True),
    ('extcollide', '*htmpl.Template', {'html/template': 'htmpl'}, '', True),
    ('extdeep', '*http.Client', {'net/http': ''}, '', True),
    ('slice', '[]string', {}, '', True),
    ('sliceptr', '[]*Foo', {}, 'type Foo struct{ N int }', True),
    ('array', '[3]int', {}, '', False),
    ('map', 'map[string]*Foo', {}, 'type Foo struct{ N int }', True),
    ('chan', 'chan int', {}, '', True),
    ('recvchan', '<-chan string', {}, '', True),
    ('sendchan', 'chan<- bool', {}, '', True),
    ('func', 'func(int) string', {}, '', True),
    ('variadic', 'func(...string) int', {}, '', True),
    ('funcnores', 'func()', {}, '', True),
    ('funcctx', 'func(context.Context) error', {'context': ''}, '', True),
    ('anonstruct', 'struct{ A int; B string }', {}, '', False),
    ('iface', 'Namer', {}, 'type Namer interface{ Name() string }', True),
    ('anoniface', 'interface{ Len() int }', {}, '', True),
    ('embediface', 'interface{ io.Closer; Namer; Size() int64 }', {'io': ''}, 'type Namer interface{ Name() string }', True),
    ('generic1', 'Box[int]', {}, 'type Box[T any] struct{ V T }', False),
    ('generic2', '*Pair[string, Bar]', {}, 'type Pair[K comparable, V any] struct{ K K; V V }\ntype Bar struct{ S string }', True),
    ('genericext', 'Box[*bytes.Buffer]', {'bytes': ''}, 'type Box[T any] struct{ V T }', False),
    ('alias', 'MyInt', {}, 'type MyInt = int32', False),
    ('aliasstruct', 'FooAlias', {}, 'type Foo struct{ N int }\ntype FooAlias = *Foo', True),
    ('mapext', 'map[time.Duration][]byte', {'time': ''}, '', True),
    ('ptrptr', '**Foo', {}, 'type Foo struct{ N int }', True),
]
TYPE_BY_KEY = {t[0]: t for t in TYPES}

# types whose lower-camel name collides with the generator's own locals / with suffixed names
ADV_NAMES = ['Eg', 'Ctx', 'Ch', 'Zero', 'Err', 'Err0', 'Foo0', 'FooCh', 'Errgroup', 'Kessoku', 'Context', 'Num', 'Str',
             'Val', 'App0', 'Eg0', 'Zero0']


def zero_expr(texpr):
    return '*new(%s)' % texpr


class Case:
    def __init__(self, cid):
        self.id = cid
        self.files = {}      # name -> source
        self.invoke = []     # files passed to one CLI invocation, in order
        self.meta = {}


def gen_case(rng, cid, ntypes=None, adversarial=False, ninj=1, nfiles=1, force_async=None, types_keys=None, shadow_import=False, parallel=False):
    """One user package.  Providers: New<i>(deps...) (Ti[, error]); a final NewApp consumes everything not yet consumed."""
    c = Case(cid)
    decls = []
    imports = {}
    seen_decl = set()

    def need(tdef):
        for path, alias in tdef[2].items():
            imports[path] = alias
        for ln in tdef[3].split('\n'):
            if ln and ln not in seen_decl:
                seen_decl.add(ln)
                decls.append(ln)

    k = ntypes or rng.randint(2, 5)
    keys = types_keys or rng.sample([t[0] for t in TYPES], k)
    chosen = []
    for key in keys:
        chosen.append(TYPE_BY_KEY[key])
    adv_types = []
    if adversarial:
        for name in rng.sample(ADV_NAMES, rng.randint(2, 4)):
            form = rng.choice(['*%s', '%s'])
            adv_types.append(('adv' + name, form % name, {}, 'type %s struct{ X int }' % name, form.startswith('*')))
    alltypes = chosen + adv_types
    # a package-level identifier named like an imported package, declared in a file that sorts last: the user has to
    # alias that import, and so has the generator
    shadow = None
    if shadow_import:
        for t in alltypes:
            for path, al in t[2].items():
                if not al and '/' not in path and path != 'context' and shadow is None:
                    shadow = path
    if shadow:
        def re_alias(t):
            im = dict(t[2])
            im[shadow] = shadow + 'x'
            return (t[0], t[1].replace(shadow + '.', shadow + 'x.'), im, t[3], t[4])
        alltypes = [re_alias(t) if shadow in t[2] else t for t in alltypes]
        c.files['zz_names.go'] = 'package main\n\nvar %s = "a package-level identifier named like a package"\n' % shadow
        c.meta['shadowed_import'] = shadow
    # one distinct Go type per provider: drop duplicates of identical type expressions
    uniq = []
    seen_t = set()
    for t in alltypes:
        if t[1] not in seen_t:
            seen_t.add(t[1])
            uniq.append(t)
    alltypes = uniq
    for t in alltypes:
        need(t)
    provs = []
    fallible_any = False
    for i, t in enumerate(alltypes):
        deps = []
        if i > 0 and rng.random() < 0.6 and not (parallel and i < 2):
            deps = rng.sample(range(i), rng.randint(1, min(2, i)))
        is_async = (rng.random() < 0.5) if force_async is None else force_async
        fall = rng.random() < 0.35
        fallible_any = fallible_any or fall
        takes_ctx = rng.random() < 0.15
        if takes_ctx:
            imports['context'] = imports.get('context', '')
        provs.append({'i': i, 'type': t, 'deps': deps, 'async': is_async, 'fall': fall, 'ctx': takes_ctx})
    src_types = '\n'.join(decls)
    fn_src = []
    # one provider may return a second value nobody consumes, of a type whose package nothing else in the package's
    # generated file mentions (it is written as _ and must not drag an import in)
    extra_of = None
    if provs and rng.random() < 0.3:
        extra_of = rng.choice(provs)['i']
        imports['container/list'] = imports.get('container/list', '')
        c.meta['unused_foreign_result'] = extra_of
    for p in provs:
        params = ['d%d %s' % (j, alltypes[j][1]) for j in p['deps']]
        if p['ctx']:
            params.insert(0, 'c context.Context')
        res = p['type'][1]
        body = 'return %s' % zero_expr(res)
        if p['i'] == extra_of:
            res = '(%s, *list.List%s)' % (res, ', error' if p['fall'] else '')
            body += ', nil' + (', nil' if p['fall'] else '')
        elif p['fall']:
            res = '(%s, error)' % res
            body += ', nil'
        fname = 'New%d' % p['i']
        if adversarial and rng.random() < 0.3 and p['type'][1].lstrip('*')[0].isupper() and '[' not in p['type'][1] and '.' not in p['type'][1]:
            # a provider function named like the local variable its result gets (foo for type Foo)
            nm = p['type'][1].lstrip('*')
            cand = nm[0].lower() + nm[1:]
            if cand not in ('eg', 'ctx', 'ch', 'zero', 'err', 'num', 'str', 'val', 'context', 'kessoku', 'errgroup') and not any(q.get('fname') == cand for q in provs):
                fname = cand
        p['fname'] = fname
        fn_src.append('func %s(%s) %s {\n\t%s\n}\n' % (fname, ', '.join(params), res, body))
    # results: nillable App or a non-nillable value
    app_nillable = rng.random() < 0.5
    app_t = '*App' if app_nillable else 'App'
    app_fall = rng.random() < 0.4
    app_params = ['d%d %s' % (j, alltypes[j][1]) for j in range(len(alltypes))]
    fn_src.append('type App struct{ X int }\n\nfunc NewApp(%s) %s {\n\treturn %s%s\n}\n' % (
        ', '.join(app_params), ('(%s, error)' % app_t) if app_fall else app_t, zero_expr(app_t), ', nil' if app_fall else ''))
    pkglevel = ''
    if adversarial:
        cands = ['eg', 'ctx', 'zero', 'ch', 'err', 'errgroup0', 'app', 'app']
        picked = list(dict.fromkeys(rng.sample(cands, rng.randint(0, 2))))
        # declared as variables or as constants; sometimes also a constant named like the local a provided type would get
        pkglevel = ''.join('%s %s = %d\n' % (rng.choice(['var', 'const']), n, i) for i, n in enumerate(picked))
        lows = []
        for t in alltypes:
            nm = t[1].lstrip('*')
            if nm[:1].isupper() and nm.isalnum():
                lows.append(nm[0].lower() + nm[1:])
        impnames = {'kessoku', 'context', 'errgroup'} | {(al or pth.split('/')[-1]) for pth, al in imports.items()}
        lows = [x for x in lows if x not in picked and x not in ('app',) and x not in impnames and not any(q.get('fname') == x for q in provs)]
        if lows and rng.random() < 0.5:
            cn = rng.choice(lows)
            pkglevel += 'const %s = 7\n' % cn
            picked = picked + [cn]
        c.meta['pkglevel'] = picked
        if picked and rng.random() < 0.5:
            # the declarations live in a sibling file written by another generator
            c.files['zz_gen.go'] = '// Code generated by stringer -type=Kind; DO NOT EDIT.\n\npackage main\n\n' + pkglevel
            c.meta['pkglevel_in_generated_file'] = True
            pkglevel = ''

    def imp_block(extra=None):
        im = dict(imports)
        for k_, v_ in (extra or {}).items():
            im[k_] = v_
        lines = []
        for path in sorted(im):
            lines.append('\t%s"%s"' % ((im[path] + ' ') if im[path] else '', path))
        return 'import (\n%s\n)\n' % '\n'.join(lines)

    def pexpr(p):
        e = 'kessoku.Provide(%s)' % p['fname']
        if p['async']:
            e = 'kessoku.Async(%s)' % e
        return e

    # declarations: injector j requests App (all providers) or an intermediate type (prefix of providers)
    injs = []
    total = ninj * nfiles
    for j in range(total):
        if j == 0 or rng.random() < 0.5:
            ret = app_t
            used = provs
            items = [pexpr(p) for p in used] + ['kessoku.Provide(NewApp)']
        else:
            upto = rng.randint(0, len(provs) - 1)
            ret = provs[upto]['type'][1]
            used = provs[: upto + 1]
            items = [pexpr(p) for p in used]
        rng.shuffle(items)
        injs.append('var _ = kessoku.Inject[%s](\n\t"Init%s%d",\n\t%s,\n)\n' % (ret, cid.capitalize(), j, ',\n\t'.join(items)))
    # types.go: everything but the Inject declarations; it uses every import so that the package compiles alone
    uses = []
    types_go = 'package main\n\n' + imp_block() + '\n' + src_types + '\n\n' + pkglevel + '\n' + '\n'.join(fn_src) + '\nfunc main() {}\n'
    c.files['types.go'] = types_go
    for f in range(nfiles):
        body = ''.join(injs[f * ninj:(f + 1) * ninj])
        # the inject file imports kessoku (+ whatever its type arguments mention)
        im = {'github.com/mazrean/kessoku': ''}
        for path, alias in imports.items():
            tok = (alias or path.split('/')[-1]) + '.'
            if tok in body:
                im[path] = alias
        lines = ['\t%s"%s"' % ((im[pth] + ' ') if im[pth] else '', pth) for pth in sorted(im)]
        c.files['k%d.go' % f] = 'package main\n\nimport (\n%s\n)\n\n%s' % ('\n'.join(lines), body)
        c.invoke.append('k%d.go' % f)
    c.meta.update({'types': [t[0] for t in alltypes], 'ninj': ninj, 'nfiles': nfiles, 'adversarial': adversarial,
                   'async': [p['async'] for p in provs], 'fallible': [p['fall'] for p in provs],
                   'app': app_t, 'app_fallible': app_fall})
    return c


def transitive_case(rng, cid, shadow_std=False, nfiles=1, other_used=True, args_first=False):
    """A package whose injector must spell types of packages NO file of the user's package imports: they are reached only
    through the signatures of constructors in a library package (lib.NewLogger() *log.Logger, lib.NewStoreConfig()
    *storage/config.Config).  Two packages share the package name `config`, and a file of the user's package that sorts
    AFTER the generated file imports the other one.  Optionally the user's package declares a package-level identifier
    named like the std package `log`, which only the generated file has to import.  other_used=False: the injector does not
    use the other `config` package at all (only a helper in the later-sorting file does), so the generated file imports
    just the transitively reached one."""
    c = Case(cid)
    mod = 'scratch/' + cid
    c.files['storage/config/c.go'] = 'package config\n\ntype Config struct{ DSN string }\n'
    c.files['server/config/c.go'] = 'package config\n\ntype Options struct{ Addr string }\n'
    c.files['lib/lib.go'] = ('package lib\n\nimport (\n\t"log"\n\t"os"\n\n\tsconfig "%s/storage/config"\n)\n\n'
                             'type Service struct{ L *log.Logger }\n\ntype Store struct{ C *sconfig.Config }\n\n'
                             'func NewStoreConfig() *sconfig.Config { return &sconfig.Config{} }\n\n'
                             'func NewStore(c *sconfig.Config) *Store { return &Store{C: c} }\n\n'
                             'func NewLogger() *log.Logger { return log.New(os.Stderr, "", 0) }\n\n'
                             'func NewService(l *log.Logger) *Service { return &Service{L: l} }\n') % mod
    shadow = 'var log = []string{"a package-level identifier named like a package nobody here imports"}\n\n' if shadow_std else ''
    c.files['types.go'] = ('package main\n\n' + shadow + 'type Cache struct{ N int }\n\nfunc NewCache() *Cache { return &Cache{} }\n\nfunc main() {}\n')
    if other_used:
        c.files['zserver.go'] = ('package main\n\nimport (\n\t"%s/lib"\n\t"%s/server/config"\n)\n\n' % (mod, mod) +
                                 'type App struct{ X int }\n\nfunc NewOptions() *config.Options { return &config.Options{} }\n\n'
                                 'func NewApp(o *config.Options, s *lib.Store, sv *lib.Service, ca *Cache) *App { return &App{} }\n')
    else:
        c.files['zserver.go'] = ('package main\n\nimport (\n\t"%s/lib"\n\t"%s/server/config"\n)\n\n' % (mod, mod) +
                                 'type App struct{ X int }\n\ntype Options struct{ Addr string }\n\nfunc ListenAddr() string { return (&config.Options{}).Addr }\n\n'
                                 'func NewOptions() *Options { return &Options{Addr: ListenAddr()} }\n\n'
                                 'func NewApp(o *Options, s *lib.Store, sv *lib.Service, ca *Cache) *App { return &App{} }\n')
    body = ('var _ = kessoku.Inject[*App](\n\t"Init%s",\n\tkessoku.Async(kessoku.Provide(lib.NewStoreConfig)),\n\tkessoku.Async(kessoku.Provide(lib.NewLogger)),\n'
            '\tkessoku.Async(kessoku.Provide(lib.NewStore)),\n\tkessoku.Async(kessoku.Provide(lib.NewService)),\n'
            '\tkessoku.Async(kessoku.Provide(NewOptions)),\n\tkessoku.Provide(NewCache),\n\tkessoku.Provide(NewApp),\n)\n') % cid.capitalize()
    if args_first:
        # injectors whose dependencies nobody supplies: the transitively reached types become PARAMETERS, and these are the
        # first type expressions of the file that mention their packages
        body = ('var _ = kessoku.Inject[*lib.Store](\n\t"Init%sStoreArg",\n\tkessoku.Provide(lib.NewStore),\n)\n\n'
                'var _ = kessoku.Inject[*lib.Service](\n\t"Init%sSvcArg",\n\tkessoku.Async(kessoku.Provide(lib.NewService)),\n)\n\n'
                % (cid.capitalize(), cid.capitalize())) + body
    c.files['k0.go'] = 'package main\n\nimport (\n\t"github.com/mazrean/kessoku"\n\t"%s/lib"\n)\n\n%s' % (mod, body)
    c.invoke = ['k0.go']
    if nfiles > 1:
        body2 = ('var _ = kessoku.Inject[*lib.Service](\n\t"Init%sB",\n\tkessoku.Async(kessoku.Provide(lib.NewLogger)),\n'
                 '\tkessoku.Async(kessoku.Provide(lib.NewStoreConfig)),\n\tkessoku.Async(kessoku.Provide(lib.NewStore)),\n'
                 '\tkessoku.Provide(func(l *lib.Store, sv0 *lib.Service) *Cache { return &Cache{} }),\n\tkessoku.Async(kessoku.Provide(lib.NewService)),\n)\n') % cid.capitalize()
        c.files['k1.go'] = 'package main\n\nimport (\n\t"github.com/mazrean/kessoku"\n\t"%s/lib"\n)\n\n%s' % (mod, body2)
        c.invoke = ['k0.go', 'k1.go']
    c.meta.update({'kind': 'transitive-imports', 'shadow_std': shadow_std, 'other_used': other_used, 'args_first': args_first, 'ninj': 1, 'nfiles': nfiles, 'types': ['transitive']})
    return c


def composite_transitive_case(rng, cid, npk=4):
    """ONE provided value whose composite type (map / func / struct / slice of those) mentions several packages that share
    the package name `v1` and that no file of the user's package imports: they are reached only through the signatures of a
    library's constructors.  The import names the generator invents for them (v1, v10, ...) follow the order in which it
    meets them; that order must be a function of the type, not of a map iteration (seeded change w10-C11-1)."""
    c = Case(cid)
    mod = 'scratch/' + cid
    groups = ['core', 'apps', 'batch', 'rbac', 'policy', 'events'][:npk]
    for g in groups:
        c.files['api/%s/v1/types.go' % g] = 'package v1\n\ntype %sSpec struct{ N int }\n\ntype %sKey string\n' % (g.capitalize(), g.capitalize())
    imps = ''.join('\t%sv1 "%s/api/%s/v1"\n' % (g, mod, g) for g in groups)
    sp = lambda g: '%sv1.%sSpec' % (g, g.capitalize())
    ky = lambda g: '%sv1.%sKey' % (g, g.capitalize())
    order = groups[:]
    rng.shuffle(order)
    shapes = [
        'map[%s]*%s' % (ky(order[0]), sp(order[1])),
        'func(%s) (%s, error)' % (', '.join('*' + sp(g) for g in order[:-1]), ky(order[-1])),
        'struct {\n\tA *%s\n\tB []%s\n}' % (sp(order[-1]), ky(order[0])),
        '[]map[%s][]*%s' % (ky(order[-2]), sp(order[-1])),
    ]
    lib = 'package lib\n\nimport (\n' + imps + ')\n\n'
    names = []
    for k, sh in enumerate(shapes):
        lib += 'type Alias%d = %s\n\nfunc NewV%d() %s { var z %s; return z }\n\n' % (k, sh, k, sh, sh)
        names.append('NewV%d' % k)
    lib += 'type All struct{ N int }\n\nfunc NewAll(%s) *All { return &All{} }\n' % ', '.join('v%d %s' % (k, sh) for k, sh in enumerate(shapes))
    c.files['lib/lib.go'] = lib
    c.files['types.go'] = 'package main\n\nfunc main() {}\n'
    items = ['kessoku.Async(kessoku.Provide(lib.%s))' % n for n in names] + ['kessoku.Provide(lib.NewAll)']
    rng.shuffle(items)
    c.files['k0.go'] = ('package main\n\nimport (\n\t"github.com/mazrean/kessoku"\n\t"%s/lib"\n)\n\nvar _ = kessoku.Inject[*lib.All](\n\t"Init%s",\n\t%s,\n)\n'
                        % (mod, cid.capitalize(), ',\n\t'.join(items)))
    c.invoke = ['k0.go']
    c.meta.update({'kind': 'composite-transitive-imports', 'npk': npk, 'ninj': 1, 'nfiles': 1, 'types': ['transitive-composite']})
    return c


def derived_name_case(rng, cid, perm=0, ch_async=False):
    """Types whose local-variable names coincide with names the generator DERIVES from other variables: `Event` is built in
    a goroutine and awaited elsewhere (its done-channel is derived from its variable: eventCh) while a user type `EventCh`
    (variable eventCh) is in the same function; likewise `Item`/`Item0` for the allocator's numeric suffixes.  perm picks
    the parameter order of the consumer, which decides which of them ends up in a goroutine."""
    import itertools
    c = Case(cid)
    params = [('a', '*Audit'), ('e', '*Event'), ('ch', 'EventCh'), ('i', 'Item'), ('i0', '*Item0')]
    order = list(itertools.permutations(range(len(params))))[perm % 120]
    ps = ', '.join('%s %s' % params[k] for k in order)
    c.files['types.go'] = ('package main\n\ntype Audit struct{ N int }\n\ntype Event struct{ N int }\n\ntype EventCh chan *Event\n\n'
                           'type Item struct{ N int }\n\ntype Item0 struct{ N int }\n\ntype App struct{ X int }\n\n'
                           'func NewAudit() *Audit { return &Audit{} }\n\nfunc NewEvent() (*Event, error) { return &Event{}, nil }\n\n'
                           'func NewEventCh() EventCh { return make(EventCh, 1) }\n\nfunc NewItem() Item { return Item{} }\n\n'
                           'func NewItem0(a *Audit) *Item0 { return &Item0{} }\n\n'
                           'func NewApp(%s) *App { return &App{} }\n\nfunc main() {}\n') % ps
    items = ['kessoku.Async(kessoku.Provide(NewAudit))', 'kessoku.Async(kessoku.Provide(NewEvent))',
             ('kessoku.Async(kessoku.Provide(NewEventCh))' if ch_async else 'kessoku.Provide(NewEventCh)'),
             'kessoku.Async(kessoku.Provide(NewItem))', 'kessoku.Async(kessoku.Provide(NewItem0))', 'kessoku.Provide(NewApp)']
    rng.shuffle(items)
    c.files['k0.go'] = ('package main\n\nimport "github.com/mazrean/kessoku"\n\nvar _ = kessoku.Inject[*App](\n\t"Init%s",\n\t%s,\n)\n'
                        % (cid.capitalize(), ',\n\t'.join(items)))
    c.invoke = ['k0.go']
    c.meta.update({'kind': 'derived-names', 'perm': perm, 'ch_async': ch_async, 'ninj': 1, 'nfiles': 1, 'types': ['derived']})
    return c


def regress_cases():
    """reproducers of repaired C04 defects (regress/C04/<name>/): kept in the corpus so that a return is reported"""
    out = []
    base = os.path.join(pl.VERIF, 'regress', 'C04')
    for k, name in enumerate(sorted(os.listdir(base)) if os.path.isdir(base) else []):
        cid = 'g%02d%s' % (k, re.sub(r'[^a-z0-9]', '', name.lower())[:12])
        c = Case(cid)
        for dp, dn, fn in os.walk(os.path.join(base, name)):
            for f in fn:
                if f.endswith('.go'):
                    rel = os.path.relpath(os.path.join(dp, f), os.path.join(base, name))
                    c.files[rel] = open(os.path.join(dp, f)).read().replace('scratch/CASE', 'scratch/' + cid)
        top = [f for f in c.files if '/' not in f]
        if not any(re.search(r'^func main\(\)', c.files[f], re.M) for f in top):
            c.files['zz_main.go'] = 'package main\n\nfunc main() {}\n'
        c.invoke = sorted(f for f in top if 'kessoku.Inject[' in c.files[f])
        c.meta.update({'kind': 'regress', 'name': name, 'ninj': 1, 'nfiles': len(c.invoke), 'types': ['regress']})
        out.append(c)
    return out


def multi_pkg_case(rng, cid):
    """ONE invocation over files of TWO different packages that have the same package name (cmd/alpha and cmd/beta, both
    `package main`): whatever the generator remembers per package must be keyed by the package, not by its name.  The
    second package declares identifiers named like the locals its injector would get."""
    c = Case(cid)
    mod = 'scratch/' + cid
    c.files['cmd/alpha/k.go'] = ('package main\n\nimport "github.com/mazrean/kessoku"\n\ntype Config struct{ N int }\n\ntype Store struct{ C *Config }\n\n'
                                 'func NewConfig() *Config { return &Config{N: 1} }\n\nfunc NewStore(c *Config) (*Store, error) { return &Store{C: c}, nil }\n\n'
                                 'var _ = kessoku.Inject[*Store]("InitStore", kessoku.Async(kessoku.Provide(NewConfig)), kessoku.Provide(NewStore))\n\nfunc main() {}\n')
    c.files['cmd/beta/k.go'] = ('package main\n\nimport "github.com/mazrean/kessoku"\n\ntype Config struct{ Name string }\n\ntype Cache struct{ C *Config }\n\n'
                                'type Service struct{ Name string }\n\n'
                                '// package-level identifiers named like the locals this package\'s injector would get; the other package has none of them\n'
                                'func cache() string { return "beta" }\n\nvar service = 3\n\nconst err = "not the error variable"\n\n'
                                'func NewConfig() (*Config, error) { return &Config{Name: cache()}, nil }\n\n'
                                'func NewCache(c *Config) *Cache { return &Cache{C: c} }\n\n'
                                'var _ = kessoku.Inject[*Service]("InitService",\n\tkessoku.Async(kessoku.Provide(NewConfig)),\n\tkessoku.Async(kessoku.Provide(NewCache)),\n'
                                '\tkessoku.Provide(func(c *Config, ca *Cache) *Service { return &Service{Name: c.Name + cache()} }),\n)\n\nfunc main() { _ = service; _ = err }\n')
    c.invoke = ['cmd/alpha/k.go', 'cmd/beta/k.go']
    c.meta.update({'kind': 'two-packages-one-name', 'multi_pkg': True, 'ninj': 1, 'nfiles': 2, 'types': ['multi-pkg']})
    return c


def corpus(tier, sd):
    rng = random.Random(sd * 2654435761 % (2 ** 31) + 4)
    quick = tier == 'quick'
    cases = []
    n = 0
    # every type of the universe at least once, alone with one other type, sync and async
    for t in TYPES:
        for asy in (False, True):
            other = rng.choice([x[0] for x in TYPES if x[0] != t[0]])
            cases.append(gen_case(rng, 't%03d' % n, types_keys=[t[0], other], force_async=asy))
            n += 1
    # adversarial names x injectors per file x files per invocation (pairwise-ish)
    for ninj in (1, 2, 3):
        for nfiles in (1, 2, 3):
            reps = (2 if quick else 12)
            for _ in range(reps):
                cases.append(gen_case(rng, 'a%03d' % n, adversarial=True, ninj=ninj, nfiles=nfiles))
                n += 1
    for _ in range(10 if quick else 150):
        cases.append(gen_case(rng, 'm%03d' % n, adversarial=rng.random() < 0.5, ninj=rng.randint(1, 2), nfiles=rng.randint(1, 2)))
        n += 1
    for k_ in range(4 if quick else 8):
        cases.append(transitive_case(rng, 'x%03d' % n, shadow_std=(k_ % 2 == 1), nfiles=1 + (k_ // 4) % 2, other_used=(k_ // 2) % 2 == 0, args_first=(k_ % 4 >= 2)))
        n += 1
    for k_ in range(1 if quick else 4):
        cases.append(composite_transitive_case(rng, 'q%03d' % n, npk=3 + k_ % 3))
        n += 1
    cases += regress_cases()
    cases.append(multi_pkg_case(rng, 'p%03d' % n))
    n += 1
    for k_ in range(6 if quick else 40):
        cases.append(derived_name_case(rng, 'd%03d' % n, perm=rng.randrange(120), ch_async=(k_ % 2 == 1)))
        n += 1
    for key in ('extptr', 'extval', 'genericext', 'mapext'):
        for asy in ((True,) if quick else (True, False)):
            cases.append(gen_case(rng, 's%03d' % n, types_keys=[key, rng.choice(['ptrstruct', 'string', 'slice'])], force_async=asy, shadow_import=True, parallel=True))
            n += 1
    return cases


GOMOD = """module scratch

go 1.24.0

require (
	github.com/mazrean/kessoku v0.0.0
	golang.org/x/sync v0.19.0
)

replace github.com/mazrean/kessoku => %s
"""


def write_cases(root, cases):
    os.makedirs(root, exist_ok=True)
    open(os.path.join(root, 'go.mod'), 'w').write(GOMOD % pl.REPO)
    shutil_copy(os.path.join(pl.REPO, 'go.sum'), os.path.join(root, 'go.sum'))
    for c in cases:
        d = os.path.join(root, c.id)
        os.makedirs(d, exist_ok=True)
        for fn, src in c.files.items():
            os.makedirs(os.path.dirname(os.path.join(d, fn)), exist_ok=True)
            open(os.path.join(d, fn), 'w').write(src)


def shutil_copy(a, b):
    import shutil
    shutil.copy(a, b)


def typecheck(root, ids):
    """go vet-free type check: `go build` of each package (only compile errors count).  -> {id: '' | errors}"""
    res = {i: '' for i in ids}
    remaining = list(ids)
    for _ in range(8):
        if not remaining:
            break
        p = pl.run(['go', 'build', '-o', os.devnull if len(remaining) == 1 else os.path.join(root, 'binout') + '/'] + ['./' + i for i in remaining],
                   cwd=root, env=pl.go_env(), timeout=1800)
        if p.returncode == 0:
            break
        cur = None
        bad = []
        for ln in p.stderr.splitlines():
            if ln.startswith('# scratch/'):
                cur = ln.split('/', 1)[1].split()[0]
                if cur in res and cur not in bad:
                    bad.append(cur)
            elif cur in res:
                res[cur] += ln + '\n'
        if not bad:
            raise pl.ExitTwo('go build failed without naming a package: ' + p.stderr[-2000:])
        remaining = [i for i in remaining if i not in bad]
    return res


def classify_diag(msg):
    """Blame signature of a compile diagnostic: the message with identifiers and positions abstracted."""
    first = msg.strip().splitlines()[0] if msg.strip() else ''
    m = re.sub(r'^[^:]+:\d+:\d+: ', '', first)
    m = re.sub(r'\b[a-z]+[A-Za-z]*\d+\b', 'ID', m)
    m = re.sub(r'"[^"]*"', 'STR', m)
    m = re.sub(r'\b(t|s|a|d)\d+\b', 'ID', m)
    return m[:120]


def run_cases(w, cli, cases, tag):
    root = w.path('adv-' + tag)
    write_cases(root, cases)
    multi = [c.id for c in cases if c.meta.get('multi_pkg')]
    ids = [c.id for c in cases if not c.meta.get('multi_pkg')]

    def build_tree(i):
        p_ = pl.run(['go', 'build', './%s/...' % i], cwd=root, env=pl.go_env(), timeout=900)
        return '' if p_.returncode == 0 else p_.stderr
    pre = typecheck(root, ids)
    for i in multi:
        pre[i] = build_tree(i)
    broken_input = {i: e for i, e in pre.items() if e}
    if broken_input:
        raise pl.ExitTwo('harness bug: adversarial input packages do not compile on their own: ' + json.dumps(list(broken_input.items())[:2])[:1500])

    def gen(c):
        rc, so, se = pl.run_generator(cli, os.path.join(root, c.id), files=tuple(c.invoke))
        errl = [ln for ln in se.splitlines() if 'level=INFO' not in ln]
        return c.id, rc, '\n'.join(errl)[-800:]
    gres = {i: (rc, se) for i, rc, se in pl.pmap(gen, cases)}
    okids = [i for i in ids if gres[i][0] == 0]
    post = typecheck(root, okids)
    for i in multi:
        if gres[i][0] == 0:
            post[i] = re.sub(r'^# \S+\n', '', build_tree(i), flags=re.M)
    return root, gres, post


def compile_corpus(w, rep, tier):
    sd = int(os.environ.get('VERIF_SEED', '1') or 1)
    cli = pl.build_cli(w)
    cases = corpus(tier, sd)
    root, gres, post = run_cases(w, cli, cases, 'c04')
    byid = {c.id: c for c in cases}
    records = []
    refused = {}
    for c in cases:
        rc, se = gres[c.id]
        diag = post.get(c.id, '') if rc == 0 else ''
        outs = [f[:-3] + '_band.go' for f in c.invoke]
        wrote = all(os.path.exists(os.path.join(root, c.id, o)) for o in outs)
        records.append({'ev': 'Build', 'run': c.id, 'exit': rc, 'wrote': wrote, 'diagnostics': [classify_diag(diag)] if diag else [],
                        'ninj': c.meta['ninj'], 'nfiles': c.meta['nfiles']})
        if rc != 0:
            refused[c.id] = se
    # declaration batches of the run-time checks are part of the corpus too (DeclSpec based)
    import check_runtime as cr
    dd = []
    for prop in (['C01'] if tier == 'quick' else ['C01', 'C05', 'C06']):
        dd += cr.batch(prop, 'quick', sd)
    seen = set()
    dd = [d for d in dd if not d.get('group') and not (d['id'] in seen or seen.add(d['id']))]
    droot = pl.make_scratch(w, dd, 'c04decl')
    g = pl.generate_all(cli, droot, dd)
    okd = [d['id'] for d in dd if g[d['id']][0] == 0]
    # minimal main so that the package links
    for i in okd:
        open(os.path.join(droot, i, 'main.go'), 'w').write('package main\n\nfunc main() {}\n')
    postd = typecheck(droot, okd)
    for d in dd:
        rc = g[d['id']][0]
        diag = postd.get(d['id'], '') if rc == 0 else ''
        records.append({'ev': 'Build', 'run': 'decl:' + d['id'], 'exit': rc, 'wrote': rc == 0,
                        'diagnostics': [classify_diag(diag)] if diag else [], 'ninj': 1, 'nfiles': 1})
    # TLC: GenPipeline requirement on every record
    lines = [json.dumps(r) for r in records]
    r = pl.tlc(w, 'GenPipeline', 'GenPipeline.cfg', files={'build.ndjson': '\n'.join(lines) + '\n'}, workers=1, timeout=1800, name='c04')
    vp = os.path.join(r['dir'], 'viol.json')
    if r['rc'] != 0 or not os.path.exists(vp):
        raise pl.ExitTwo('GenPipeline validation failed: %s' % r['out'][-2500:])
    vj = json.load(open(vp))
    groups = collections.defaultdict(list)
    for v in vj['viol']:
        groups['C04.compile|%s' % v['detail']].append(v['run'])
    for sig, runs in sorted(groups.items()):
        run = runs[0]
        if run.startswith('decl:'):
            did = run[5:]
            src = open(os.path.join(droot, did, 'k.go')).read()
            gen_src = open(os.path.join(droot, did, 'k_band.go')).read()
            diag = postd[did]
            meta = {'decl': did}
        else:
            c = byid[run]
            src = json.dumps(c.files)
            gen_src = '\n'.join(open(p).read() for p in sorted(glob_band(os.path.join(root, run))))
            diag = post[run]
            meta = c.meta
        rep.found(sig, '%s: %d package(s); first %s: %s' % (sig, len(runs), run, diag.strip()[:400]),
                  {'case': run, 'meta': meta, 'diagnostics': diag, 'input': src, 'generated': gen_src})
    # identifiers (Names.tla) of every generated file that was written
    names = names_of_cases(w, rep, root, [c for c in cases if gres[c.id][0] == 0], 'C04')
    st, _ = pl.tlc_stats(r['out'])
    ok = [c for c in cases if gres[c.id][0] == 0]
    return {
        'evaluations': len(records), 'distinct_nontrivial': len({json.dumps(c.meta, sort_keys=True) for c in cases}),
        'rule': 'one evaluation = one user package run through the real generator and the Go type checker; distinct = distinct '
                'configurations (type set x adversarial names x async/error flags x injectors per file x files per invocation)',
        'samples': [{'case': cases[0].id, 'meta': cases[0].meta, 'inject_file': cases[0].files['k0.go'][:600]},
                    {'case': cases[-1].id, 'meta': cases[-1].meta}],
        'packages': len(cases), 'declaration_packages': len(dd), 'generator_refused': len(refused),
        'refused_samples': list(refused.items())[:3], 'states': st, 'names_end_to_end': names,
        'type_universe': [t[0] for t in TYPES], 'exhaustive': False,
    }


def glob_band(d):
    import glob
    return glob.glob(os.path.join(d, '*_band.go'))


# ---------------------------------------------------------------------------------------------------------------------
# identifiers of generated files as Declare actions (NamesTrace.tla)

def names_of_cases(w, rep, root, cases, prop):
    evs = []
    nfiles = 0
    for c in cases:
        d = os.path.join(root, c.id)
        p = pl.run([pl.tool('scopes'), d], timeout=120)
        if p.returncode != 0:
            continue
        for ln in p.stdout.splitlines():
            e = json.loads(ln)
            e['case'] = c.id
            evs.append(e)
            if e['ev'] == 'File':
                nfiles += 1
    if not evs:
        return {'files': 0}
    r = pl.tlc(w, 'NamesTrace', 'NamesTrace.cfg', files={'names.ndjson': '\n'.join(json.dumps(e) for e in evs) + '\n'}, workers=1,
               timeout=1800, name='names-' + prop)
    vp = os.path.join(r['dir'], 'viol.json')
    if r['rc'] != 0 or not os.path.exists(vp):
        raise pl.ExitTwo('NamesTrace validation failed: %s' % r['out'][-2500:])
    vj = json.load(open(vp))
    st, _ = pl.tlc_stats(r['out'])
    groups = collections.defaultdict(list)
    for v in vj['viol']:
        groups['%s.names|%s|%s' % (prop, v['why'], v['kind'])].append(v)
    for sig, occ in sorted(groups.items()):
        v = occ[0]
        src = ''
        try:
            src = open(os.path.join(root, v['case'], v['file'])).read()
        except OSError:
            pass
        rep.found(sig, '%s: identifier %s (%s) in %s of case %s; %d occurrence(s)' % (sig, v['name'], v['kind'], v['func'], v['case'], len(occ)),
                  {'violation': v, 'generated': src})
    ndecl = len([e for e in evs if e['ev'] == 'Declare'])
    return {'files': nfiles, 'declare_actions': ndecl, 'states': st,
            'samples': [{'declare_events_of_one_file': [e for e in evs if e['ev'] == 'Declare'][:8]}]}


def names_end_to_end(w, rep, tier, prop):
    sd = int(os.environ.get('VERIF_SEED', '1') or 1)
    rng = random.Random(sd + 12)
    cli = pl.build_cli(w)
    cases = []
    n = 0
    for ninj in (1, 2):
        for nfiles in (1, 2):
            for _ in range(3 if tier == 'quick' else 20):
                cases.append(gen_case(rng, 'n%03d' % n, adversarial=True, ninj=ninj, nfiles=nfiles))
                n += 1
    for k in range(6 if tier == 'quick' else 40):
        cases.append(derived_name_case(rng, 'e%03d' % k, perm=rng.randrange(120), ch_async=(k % 2 == 1)))
    for k in range(2 if tier == 'quick' else 6):
        cases.append(transitive_case(rng, 'y%03d' % k, shadow_std=True, nfiles=1 + k % 2, other_used=(k // 2) % 2 == 0, args_first=(k % 2 == 1)))
    # an import the user had to rename because a LATER file of the package declares an identifier with that name
    for k, key in enumerate(('extptr', 'extval', 'genericext', 'mapext')[: (2 if tier == 'quick' else 4)]):
        cases.append(gen_case(rng, 'z%03d' % k, types_keys=[key, rng.choice(['ptrstruct', 'string', 'slice'])], force_async=True, shadow_import=True, parallel=True))
    root, gres, post = run_cases(w, cli, cases, 'c12')
    ok = [c for c in cases if gres[c.id][0] == 0]
    out = names_of_cases(w, rep, root, ok, prop)
    out['packages'] = len(cases)
    return out
