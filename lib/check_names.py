"""C12 (generated identifiers are fresh) and C04 (generated code compiles and is hygienic).

C12: TLC explores spec/VarPoolImpl.tla (today's allocator, one action per request) over EVERY request history up to a
bound over adversarial request kinds and checks the requirement of spec/Names.tla; every explored history is replayed
(B3) into the real VarPool by an in-package test dropped into a scratch copy of /repo's working tree; end to end, the
identifiers declared in files generated from adversarial packages are replayed as Declare actions (NamesTrace.tla).
C04: the same adversarial packages plus the declaration batches of the run-time checks, compiled by the Go type
checker; every run is a GenPipeline record validated by TLC (exit 0 and an output file => no diagnostics).
"""
import os
import re
import sys
import json
import glob
import shutil
import random
import collections

import pipeline as pl
import declspace as ds
import advgen
from common import Report, seed


def repo_copy(w, name='repo-copy'):
    dst = w.path(name)
    shutil.copytree(pl.REPO, dst, ignore=shutil.ignore_patterns('.git'))
    return dst


def varpool_model_and_replay(w, rep, maxlen):
    """-> (states, histories, replay summary)"""
    cfg = open(os.path.join(pl.VERIF, 'spec', 'VarPoolFixed.cfg')).read().replace('MaxLen = 4', 'MaxLen = %d' % maxlen)
    if maxlen >= 5:
        cfg = cfg.replace('Requests <- ReqSet', 'Requests <- ReqSet5')     # 9^5 histories instead of 12^5
    r = pl.tlc(w, 'VarPoolMC', 'VarPoolRun.cfg', files={'VarPoolRun.cfg': cfg}, workers=1, timeout=3000, name='varpool')
    model_ok = 'Model checking completed. No error has been found' in r['out']
    hp = os.path.join(r['dir'], 'histories.json')
    gen, dist = pl.tlc_stats(r['out'])
    model_cex = None
    if not model_ok:
        m = re.findall(r'hist = (<<.*>>)', r['out'])
        model_cex = m[-1] if m else r['out'][-1500:]
        # still replay: explore the unconstrained history space with the invariant off
        cfg2 = cfg.replace('INVARIANT Fresh\n', '')
        r = pl.tlc(w, 'VarPoolMC', 'VarPoolRun.cfg', files={'VarPoolRun.cfg': cfg2}, workers=1, timeout=3000, name='varpool2')
        hp = os.path.join(r['dir'], 'histories.json')
        gen, dist = pl.tlc_stats(r['out'])
    if not os.path.exists(hp):
        raise pl.ExitTwo('TLC produced no histories: ' + r['out'][-2000:])
    hist = json.load(open(hp))['histories']
    data = {'histories': hist, 'preseeded': ['pkg', 'pkg0']}
    hin = w.path('hist-in.json')
    json.dump(data, open(hin, 'w'))
    copy = repo_copy(w)
    shutil.copy(os.path.join(pl.VERIF, 'harness', 'inpkg', 'verif_varpool_test.go.txt'),
                os.path.join(copy, 'internal', 'kessoku', 'verif_varpool_test.go'))
    hout = w.path('hist-out.json')
    env = pl.go_env({'VERIF_HISTORIES': hin, 'VERIF_REPLAY_OUT': hout}, scratch=False)
    p = pl.run(['go', 'test', '-vet=off', '-count=1', '-run', 'TestVerifVarPoolReplay', './internal/kessoku/'], cwd=copy, env=env, timeout=900)
    if p.returncode != 0 or not os.path.exists(hout):
        raise pl.ExitTwo('replay test into the real VarPool failed: %s %s' % (p.stdout[-1500:], p.stderr[-1500:]))
    summ = json.load(open(hout))
    return dist, gen, hist, summ, model_ok, model_cex


def main_c12(tier):
    rep = Report('C12', tier, 'model_checking')
    quick = tier == 'quick'
    try:
        pl.build_tools()
        with pl.Work('C12') as w:
            dist, gen, hist, summ, model_ok, model_cex = varpool_model_and_replay(w, rep, 4 if quick else 5)
            for v in summ['violations'] or []:
                h = v['history'][: v['step'] + 1]
                shape = 'requests=' + ','.join('%s:%s' % (s[0], s[1]) for s in h)
                rep.found('C12.fresh|%s' % v['why'], 'real VarPool: %s -> %s (%s)' % (shape, v['got'], v['why']), v)
                break  # one witness per reason is enough; the rest are in the evidence count
            reasons = collections.Counter(v['why'] for v in summ['violations'] or [])
            for why in reasons:
                if not any(s[0] == 'C12.fresh|%s' % why for s in rep.violations):
                    v = next(x for x in summ['violations'] if x['why'] == why)
                    rep.found('C12.fresh|%s' % why, 'real VarPool hands out %s (%s) after %s' % (v['got'], why, json.dumps(v['history'][: v['step'] + 1])), v)
            if not model_ok and not summ['violations']:
                rep.problem('VarPoolImpl.tla violates Fresh (%s) but the real allocator does not on the replayed histories: the '
                            'implementation-shaped model no longer mirrors the code' % model_cex)
            if summ['mismatches']:
                rep.notes.append('real allocator differs from VarPoolImpl.tla on %d+ step(s) (outside the modelled design; requirement '
                                 'checked directly): %s' % (len(summ['mismatches']), json.dumps(summ['mismatches'][0])[:300]))
            # end to end: identifiers of files generated from adversarial packages
            e2e = advgen.names_end_to_end(w, rep, tier, 'C12')
            rep.cov.update({
                'states': dist + e2e.get('states', 0), 'transitions': gen + e2e.get('states', 0),
                'traces_validated_against_impl': len(hist) + e2e.get('files', 0),
                'samples': [{'history_replayed_into_real_VarPool': hist[len(hist) // 2]}] + e2e.get('samples', []),
                'histories_replayed': summ['histories'], 'requests_replayed': summ['steps'],
                'history_length': 4 if quick else 5, 'request_kinds': 11, 'model_conforms': not summ['mismatches'],
                'end_to_end': {k: v for k, v in e2e.items() if k not in ('samples',)},
                'exhaustive': True,
                'evaluations': summ['histories'] + e2e.get('files', 0), 'distinct_nontrivial': summ['histories'],
                'rule': 'every request history of the stated length over 11 adversarial request kinds (exhaustive), each replayed into the real allocator',
            })
            rep.assumptions += ['request kinds: GetName of foo foo0 foo1 fooCh fooCh0 err err0 pkg string, GetChannel of types Foo, Foo0; '
                                'package-level names pkg, pkg0 pre-registered as ParseFile does']
    except pl.ExitTwo as e:
        rep.problem(str(e))
    except Exception:
        import traceback
        rep.problem('internal error: ' + traceback.format_exc()[-3000:])
    return rep.finish()


def main_c04(tier):
    rep = Report('C04', tier, 'exploration')
    try:
        pl.build_tools()
        with pl.Work('C04') as w:
            res = advgen.compile_corpus(w, rep, tier)
            rep.cov.update(res)
    except pl.ExitTwo as e:
        rep.problem(str(e))
    except Exception:
        import traceback
        rep.problem('internal error: ' + traceback.format_exc()[-3000:])
    return rep.finish()


if __name__ == '__main__':
    prop = sys.argv[1]
    tier = sys.argv[2] if len(sys.argv) > 2 else 'quick'
    sys.exit(main_c12(tier) if prop == 'C12' else main_c04(tier))
