"""Warm the base Go build cache (run by bin/setup.sh with VERIF_SHARED_GOCACHE=1): one instrumented scratch package is
generated, its driver built with -race and run once, so that std, x/sync, the kessoku packages and the harness run-time
are cached in race mode; check processes then clone this cache (pipeline.gocache)."""
import os
import sys
sys.path.insert(0, '/verif/lib')
import pipeline as pl
import declspace as ds

with pl.Work('warm') as w:
    cli = pl.build_cli(w)
    d = ds.mk_decl('warm0', 3, [(0, 2), (1, 2)], 2, {0, 1}, {1})
    root = pl.make_scratch(w, [d], 'scratch')
    gen = pl.generate_all(cli, root, [d])
    if gen['warm0'][0] != 0:
        raise SystemExit('warm: generator failed: %s' % gen['warm0'][1][-500:])
    dg = pl.drivergen_all(root, ['warm0'])
    if dg['warm0'][0] != 0:
        raise SystemExit('warm: drivergen failed: %s' % dg['warm0'][1][-500:])
    for race in (True, False):
        b = pl.build_drivers(root, ['warm0'], race=race)
        if b['warm0']:
            raise SystemExit('warm: build failed: %s' % b['warm0'][-800:])
    r = pl.run_driver(root, 'warm0', modes='none', maxruns=3)
    print('warm ok: driver rc=%s' % r['rc'])
