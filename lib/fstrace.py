"""strace -> file-system events for spec/InstallFS.tla.  Only calls that name a path under the run's throw-away top
directory are kept (stdout, /proc, the dynamic loader ... are dropped)."""
import os
import re
import hashlib

TRACE_CALLS = ('mkdirat,mkdir,openat,open,creat,write,pwrite64,writev,fsync,fdatasync,close,fchmodat,fchmod,chmod,'
               'renameat,renameat2,rename,unlinkat,unlink,rmdir,ftruncate,truncate,linkat,link,symlinkat,symlink')
MUTATING = ['mkdirat', 'openat', 'write', 'fsync', 'close', 'fchmodat', 'renameat', 'unlinkat']

LINE = re.compile(r'^(\d+)\s+(.*)$')
CALL = re.compile(r'^(\w+)\((.*)\)\s+=\s+(-?\d+|\?)(?:<[^>]*>)?(?:\s+(E\w+)\s+\([^)]*\))?(\s+\(INJECTED\))?\s*$')


def merge_unfinished(lines):
    pend = {}
    out = []
    for ln in lines:
        m = LINE.match(ln)
        if not m:
            continue
        pid, rest = m.group(1), m.group(2)
        if rest.endswith('<unfinished ...>'):
            pend[pid] = rest[: -len('<unfinished ...>')].rstrip()
            continue
        mm = re.match(r'^<\.\.\. (\w+) resumed>(.*)$', rest)
        if mm and pid in pend:
            rest = pend.pop(pid) + mm.group(2)
        out.append((pid, rest))
    for pid, rest in pend.items():
        out.append((pid, rest + ' = ?'))   # never finished: the process died inside it
    return out


def split_args(s):
    """top-level comma split honouring quotes, brackets and the <path> annotations of strace -y"""
    out, cur, depth, q = [], '', 0, False
    i = 0
    while i < len(s):
        c = s[i]
        if q:
            cur += c
            if c == '\\':
                cur += s[i + 1]
                i += 1
            elif c == '"':
                q = False
        elif c == '"':
            q = True
            cur += c
        elif c in '([{<':
            depth += 1
            cur += c
        elif c in ')]}>':
            depth -= 1
            cur += c
        elif c == ',' and depth == 0:
            out.append(cur.strip())
            cur = ''
        else:
            cur += c
        i += 1
    if cur.strip():
        out.append(cur.strip())
    return out


def unq(a):
    """"/x/y" -> /x/y (strings are printed with -xx: every byte as \\xhh) ; returns bytes"""
    m = re.match(r'^"(.*)"(\.\.\.)?$', a)
    if not m:
        return None
    s = m.group(1)
    if '\\x' in s:
        try:
            return bytes(int(h, 16) for h in re.findall(r'\\x([0-9a-f]{2})', s))
        except ValueError:
            pass
    return s.encode('utf-8', 'surrogateescape').decode('unicode_escape').encode('latin1')


def dehex(s):
    if '\\x' not in s:
        return s
    return re.sub(r'((?:\\x[0-9a-f]{2})+)', lambda m: bytes(int(h, 16) for h in re.findall(r'\\x([0-9a-f]{2})', m.group(1))).decode('utf-8', 'replace'), s)


def fd_path(a):
    m = re.match(r'^-?\d+<(.*)>$', a)
    return dehex(m.group(1)) if m else None


def at_path(dirarg, patharg):
    p = unq(patharg)
    if p is None:
        return None
    p = p.decode('utf-8', 'replace')
    if os.path.isabs(p):
        return os.path.normpath(p)
    base = fd_path(dirarg) or (dehex(re.match(r'^AT_FDCWD<(.*)>$', dirarg).group(1)) if re.match(r'^AT_FDCWD<(.*)>$', dirarg) else None)
    if base is None:
        return None
    return os.path.normpath(os.path.join(base, p))


def parse(text, top, alias=None):
    """-> (events, raw calls, end) ; end = ('exit', code) | ('killed', sig) | None
    alias {real directory: path of the symbolic link that leads to it}: strace -y prints descriptors by their resolved
    path; every path is mapped back to the name the installer used."""
    alias = alias or {}

    def canon(p):
        if p is None:
            return p
        for real, link in alias.items():
            if p == real or p.startswith(real + '/'):
                return link + p[len(real):]
        return p
    pairs = merge_unfinished(text.splitlines())
    events, raw = [], []
    end = None
    cum = {}   # path -> hashlib object of bytes written so far (per file object as named at write time)
    for pid, rest in pairs:
        m = re.match(r'^\+\+\+ exited with (\d+) \+\+\+$', rest)
        if m:
            end = ('exit', int(m.group(1)))
            continue
        m = re.match(r'^\+\+\+ killed by (\w+)', rest)
        if m:
            end = ('killed', m.group(1))
            continue
        m = CALL.match(rest)
        if not m:
            continue
        name, args, ret, err, inj = m.group(1), m.group(2), m.group(3), m.group(4), bool(m.group(5))
        a = split_args(args)
        ok = ret not in ('?',) and not ret.startswith('-')
        executed = ret != '?'
        ev = None
        path = None
        try:
            if name in ('mkdirat', 'mkdir'):
                path = at_path(a[0], a[1]) if name == 'mkdirat' else at_path('AT_FDCWD<%s>' % top, a[0])
                ev = {'ev': 'Mkdir'}
            elif name in ('openat', 'open', 'creat'):
                if name == 'openat':
                    path = at_path(a[0], a[1])
                    flags = a[2]
                    mode = a[3] if len(a) > 3 else '0'
                else:
                    path = at_path('AT_FDCWD<%s>' % top, a[0])
                    flags = a[1] if name == 'open' else 'O_CREAT|O_WRONLY|O_TRUNC'
                    mode = a[2] if len(a) > 2 else '0'
                fl = set(flags.split('|'))
                ev = {'ev': 'Open', 'creat': 'O_CREAT' in fl, 'excl': 'O_EXCL' in fl, 'trunc': 'O_TRUNC' in fl,
                      'wr': bool(fl & {'O_WRONLY', 'O_RDWR'}), 'mode': mode.lstrip('0').rjust(3, '0').rjust(4, '0') if mode != '0' else '0000'}
            elif name in ('write', 'pwrite64', 'writev'):
                path = fd_path(a[0])
                data = unq(a[1]) if name != 'writev' else b''
                n = int(ret) if ok else 0
                ev = {'ev': 'Write', 'n': n}
                if path is not None and ok:
                    h = cum.setdefault(path, hashlib.sha256())
                    h.update((data or b'')[:n])
                    ev['cum'] = h.copy().hexdigest()
                else:
                    ev['cum'] = ''
            elif name in ('fsync', 'fdatasync'):
                path = fd_path(a[0])
                ev = {'ev': 'Fsync'}
            elif name == 'close':
                path = fd_path(a[0])
                ev = {'ev': 'Close'}
            elif name in ('fchmodat', 'chmod', 'fchmod'):
                if name == 'fchmodat':
                    path, mode = at_path(a[0], a[1]), a[2]
                elif name == 'chmod':
                    path, mode = at_path('AT_FDCWD<%s>' % top, a[0]), a[1]
                else:
                    path, mode = fd_path(a[0]), a[1]
                ev = {'ev': 'Chmod', 'mode': mode.lstrip('0').rjust(3, '0').rjust(4, '0')}
            elif name in ('renameat', 'renameat2', 'rename'):
                if name == 'rename':
                    path, dst = at_path('AT_FDCWD<%s>' % top, a[0]), at_path('AT_FDCWD<%s>' % top, a[1])
                else:
                    path, dst = at_path(a[0], a[1]), at_path(a[2], a[3])
                ev = {'ev': 'Rename', 'dst': dst}
                if ok and path in cum:
                    cum[dst] = cum.pop(path)
            elif name in ('unlinkat', 'unlink', 'rmdir'):
                path = at_path(a[0], a[1]) if name == 'unlinkat' else at_path('AT_FDCWD<%s>' % top, a[0])
                ev = {'ev': 'Unlink'}
                if ok:
                    cum.pop(path, None)
            elif name in ('ftruncate', 'truncate'):
                path = fd_path(a[0]) if name == 'ftruncate' else at_path('AT_FDCWD<%s>' % top, a[0])
                ev = {'ev': 'Truncate'}
                if ok:
                    cum[path] = hashlib.sha256()
            elif name in ('linkat', 'link', 'symlinkat', 'symlink'):
                path = None
                ev = {'ev': 'Link'}
        except (IndexError, AttributeError, ValueError):
            ev = None
        path = canon(path)
        if ev is not None and 'dst' in ev:
            ev['dst'] = canon(ev['dst'])
        rawrec = {'pid': pid, 'name': name, 'path': path, 'ret': ret, 'err': err, 'injected': inj, 'executed': executed}
        if path is None or not (path == top or path.startswith(top + '/')):
            if inj or not executed:
                raw.append(rawrec)   # an injection that hit a call outside the sandbox: the driver needs to know
            continue
        raw.append(rawrec)
        if ev is None or not executed:
            continue
        if ev['ev'] == 'Open' and ok and ev['trunc'] and ev['wr']:
            cum[path] = hashlib.sha256()
        if ev['ev'] == 'Open' and ok and ev['creat'] and path not in cum:
            cum[path] = hashlib.sha256()
        ev.update({'path': path, 'ok': ok, 'err': err or '', 'injected': inj})
        events.append(ev)
    return events, raw, end


def snapshot(top):
    """path -> [content hash ('' when empty), mode] for every regular file under top"""
    out = {}
    for dp, dn, fn in os.walk(top, followlinks=True):
        for f in fn:
            p = os.path.join(dp, f)
            try:
                st = os.stat(p)
                b = open(p, 'rb').read()
            except OSError:
                continue
            out[p] = {'content': hashlib.sha256(b).hexdigest() if b else '', 'mode': '%04o' % (st.st_mode & 0o7777)}
    return out
