"""Checks on the generator CLI as a black box: C09 (refuse/accept), C10 (signature), C11 (deterministic, idempotent).
Real invocations of the binary built from /repo's working tree are recorded as ndjson and validated by TLC against
spec/GenTrace.tla (oracle: spec/Decl.tla Accepts / ExpectedSig; abstract state: input -> output)."""
import os
import re
import sys
import json
import glob
import time
import shutil
import random
import hashlib
import collections

import pipeline as pl
import declspace as ds
import declgen
from common import Report, seed

STALE = 'package main\n\n// stale output of an earlier generator run\n'


def sha(path):
    if not os.path.exists(path):
        return ''
    return hashlib.sha256(open(path, 'rb').read()).hexdigest()


def tname(texpr):
    if texpr == 'context.Context':
        return 'ctx'
    return texpr.lstrip('*')


def funcs_of(path):
    p = pl.run([pl.tool('sigtool'), path], timeout=60)
    if p.returncode != 0:
        return None
    out = []
    for f in json.loads(p.stdout):
        out.append({'name': f['name'], 'params': [tname(t) for _, t in f['params']], 'results': [tname(t) for t in f['results']]})
    return out


def run_record(cli, pkgdir, decl_ids, run_id, types, src_key, env_extra=None, fname='k.go'):
    outp = os.path.join(pkgdir, fname[:-3] + '_band.go')
    before = (os.path.exists(outp), sha(outp), os.stat(outp).st_mtime_ns if os.path.exists(outp) else 0)
    rc, so, se = pl.run_generator(cli, pkgdir, files=(fname,), env_extra=env_extra)
    after = (os.path.exists(outp), sha(outp), os.stat(outp).st_mtime_ns if os.path.exists(outp) else 0)
    if not after[0]:
        out = 'absent' if not before[0] else 'changed'
    elif not before[0]:
        out = 'created'
    elif after[1] == before[1] and after[2] == before[2]:
        out = 'unchanged'
    else:
        out = 'changed'
    errlines = [ln for ln in se.splitlines() if 'level=INFO' not in ln and 'level=DEBUG' not in ln]
    msg = '\n'.join(errlines)
    named = sorted({t for t in types if re.search(r'(?<![A-Za-z0-9_])%s(?![A-Za-z0-9_])' % re.escape(t), msg)})
    funcs = []
    if rc == 0 and after[0]:
        funcs = funcs_of(outp)
        if funcs is None:
            funcs = [{'name': '?unparsable', 'params': [], 'results': []}]
    return {'ev': 'Run', 'run': run_id, 'decls': decl_ids, 'exit': rc, 'named': named, 'out': out, 'funcs': funcs,
            'src': src_key, 'outhash': after[1], 'stderr': msg[-600:]}


def tlc_gen(w, decls, records, name='gen'):
    lines = [json.dumps({k: v for k, v in r.items() if k != 'stderr'}) for r in records]
    r = pl.tlc(w, 'GenTrace', 'GenTrace.cfg', files={'decls.json': json.dumps([ds.tla_decl(d) for d in decls]),
                                                     'gen.ndjson': '\n'.join(lines) + '\n'}, workers=1, timeout=3000, name=name)
    vp = os.path.join(r['dir'], 'viol.json')
    if r['rc'] != 0 or not os.path.exists(vp):
        raise pl.ExitTwo('GenTrace validation failed (rc=%s): %s %s' % (r['rc'], r['out'][-3000:], r['err'][-800:]))
    vj = json.load(open(vp))
    if vj['lines'] != len(lines):
        raise pl.ExitTwo('GenTrace consumed %d of %d lines' % (vj['lines'], len(lines)))
    st, _ = pl.tlc_stats(r['out'])
    return vj, st


# ---------------------------------------------------------------------------------------------------------------------

def batch_c09(tier, sd):
    rng = random.Random(sd * 104729 + 9)
    quick = tier == 'quick'
    base = []
    ex = ds.exhaustive_small(3, with_fallible=False)
    base += rng.sample(ex, 16) if quick else ex
    for i in range(14 if quick else 120):
        base.append(ds.random_decl(rng, 'g%03d' % i, nmin=2, nmax=6, zero_in_async=rng.choice([0, 0, 2])))
    for i in range(8 if quick else 40):
        d = ds.random_decl(rng, 'b%03d' % i, nmin=2, nmax=5, p_async=0.0, zero_in_async=0)
        fns = [p for p in d['providers'] if p['kind'] == 'fn' and p['id'] in ds.needed(d) and d['types'][p['provides'][0][0]]['form'] != 'iface'
               and 'fields' not in d['types'][p['provides'][0][0]]]
        if fns:
            p = rng.choice(fns)
            p['async'] = True
            if len(p['provides'][0]) == 1:
                iname = 'I9%d' % i
                d['types'][iname] = {'form': 'iface'}
                p['provides'][0] = list(p['provides'][0]) + [iname]
            p['wrap'] = 'bind-async'      # kessoku.Bind[I](kessoku.Async(kessoku.Provide(f)))
        base.append(d)
    for i in range(6 if quick else 30):
        d = ds.random_decl(rng, 'e%03d' % i, nmin=3, nmax=5, zero_in_async=rng.choice([0, 1]))
        # a provided value whose type implements error (a sentinel, an accumulator): it is a value, not the error result
        fns = [p for p in d['providers'] if p['kind'] == 'fn' and d['types'][p['provides'][0][0]]['form'] in ('ptr', 'val')
               and 'fields' not in d['types'][p['provides'][0][0]]]
        if fns:
            d['types'][rng.choice(fns)['provides'][0][0]]['is_error'] = True
        # an Async provider taking an unsupplied input, the context, and another unsupplied input, in this order
        afn = [p for p in d['providers'] if p['kind'] == 'fn' and p['id'] in ds.needed(d) and 'ctx' not in p['requires']]
        if afn:
            p = rng.choice(afn)
            p['async'] = True
            a, b = 'AX%d' % i, 'AY%d' % i
            d['types'][a] = {'form': 'val'}
            d['types'][b] = {'form': 'ptr'}
            p['requires'] = [a, 'ctx', b] + list(p['requires'])
        base.append(d)
    # several Async sources, fallible or not, and a synchronous tail: which providers can fail on which goroutine decides
    # nothing about the signature (error result iff a NEEDED provider can fail, wherever it runs)
    for i in range(8 if quick else 40):
        base.append(ds.sources_decl(rng, 'k%03d' % i, p_fallible=rng.choice([0.3, 0.6]), nsync=(0 if i % 2 else None)))
    base = [d for d in base if ds.accepts(d)]
    # the requested type supplied only by a field of an expanded struct (valid; cycles / duplicates / orphans planted below)
    fr = []
    for d in base:
        fr += ds.field_ret_variants(d) + ds.multi_ret_variants(d)
    base += rng.sample(fr, min(len(fr), 6 if quick else 60))
    out = []
    for d in base:
        out.append(d)
        cyc = ds.plant_cycles(d)
        dup = ds.plant_dups(d)
        orp = ds.plant_orphan(d)
        if quick:
            cyc = rng.sample(cyc, min(3, len(cyc)))
            dup = rng.sample(dup, min(3, len(dup)))
        else:
            cyc = rng.sample(cyc, min(12, len(cyc)))
            dup = rng.sample(dup, min(10, len(dup)))
        out += cyc + dup + orp
    # requested type supplied by nobody: the injector must hand its own argument back (C09 converse, C10)
    for i in range(2 if quick else 6):
        d = ds.random_decl(rng, 'u%03d' % i, nmin=2, nmax=4, constructs=False)
        t = 'A99'
        d['types'][t] = {'form': rng.choice(['ptr', 'val'])}
        d['ret'] = t
        out.append(d)
    seen = set()
    res = []
    for d in out:
        if d['id'] not in seen:
            seen.add(d['id'])
            res.append(d)
    return res


def sig_of(v):
    return '%s' % v['clause']


# hand-written packages whose injector signature is PINNED by an assignment compiled after generation (C10): identifiers that
# only look like the standard context package, or like the error type
PINNED = [
    {'id': 'pinctxpkg',
     'files': {'internal/context/context.go': 'package context\n\ntype Context struct{ Tenant string }\n',
               'k.go': ('package main\n\nimport (\n\t"github.com/mazrean/kessoku"\n\tappctx "scratch/pinned/pinctxpkg/internal/context"\n)\n\n'
                        'type Repo struct{}\n\ntype Handler struct{}\n\nfunc NewRepo() *Repo { return &Repo{} }\n\n'
                        'func NewHandler(c appctx.Context, r *Repo) *Handler { return &Handler{} }\n\n'
                        'var _ = kessoku.Inject[*Handler]("InitHandler", kessoku.Async(kessoku.Provide(NewRepo)), kessoku.Provide(NewHandler))\n\n'
                        'var _ = kessoku.Inject[*Handler]("InitHandlerSync", kessoku.Provide(NewRepo), kessoku.Provide(NewHandler))\n\nfunc main() {}\n')},
     'pin': ('package main\n\nimport (\n\t"context"\n\tappctx "scratch/pinned/pinctxpkg/internal/context"\n)\n\n'
             'var _ func(context.Context, appctx.Context) *Handler = InitHandler\n\nvar _ func(appctx.Context) *Handler = InitHandlerSync\n')},
    {'id': 'pinctxtype',
     'files': {'k.go': ('package main\n\nimport "github.com/mazrean/kessoku"\n\ntype Context struct{ Tenant string }\n\ntype Repo struct{}\n\ntype Handler struct{}\n\n'
                        'func NewRepo() (*Repo, error) { return &Repo{}, nil }\n\nfunc NewHandler(c Context, r *Repo) *Handler { return &Handler{} }\n\n'
                        'var _ = kessoku.Inject[*Handler]("InitHandler", kessoku.Async(kessoku.Provide(NewRepo)), kessoku.Provide(NewHandler))\n\n'
                        'var _ = kessoku.Inject[*Handler]("InitHandlerSync", kessoku.Provide(NewRepo), kessoku.Provide(NewHandler))\n\nfunc main() {}\n')},
     'pin': ('package main\n\nimport "context"\n\nvar _ func(context.Context, Context) (*Handler, error) = InitHandler\n\n'
             'var _ func(Context) (*Handler, error) = InitHandlerSync\n')},
    {'id': 'pinerrtype',
     'files': {'k.go': ('package main\n\nimport "github.com/mazrean/kessoku"\n\ntype Problem struct{}\n\nfunc (*Problem) Error() string { return "p" }\n\n'
                        'type Repo struct{}\n\ntype Handler struct{}\n\nfunc NewRepo() (*Repo, *Problem) { return &Repo{}, nil }\n\n'
                        'func NewHandler(r *Repo, p *Problem) *Handler { return &Handler{} }\n\n'
                        'var _ = kessoku.Inject[*Handler]("InitHandler", kessoku.Provide(NewRepo), kessoku.Provide(NewHandler))\n\nfunc main() {}\n')},
     'pin': 'package main\n\nvar _ func() *Handler = InitHandler\n'},
    {'id': 'pinzoo',
     'files': {'k.go': ('package main\n\nimport "github.com/mazrean/kessoku"\n\ntype Event struct{ N int }\n\ntype Zoo struct{}\n\n'
                        'func NewZoo(a <-chan Event, b chan<- Event, c chan *Event, d []string, e map[string]*Event, f func(int, ...string) error, g [3]int,\n'
                        '\th interface{ Name() string }, i struct{ X int }, j *Event, k **Event, l []*Event) *Zoo {\n\treturn &Zoo{}\n}\n\n'
                        'var _ = kessoku.Inject[*Zoo]("InitZoo", kessoku.Provide(NewZoo))\n\nfunc main() {}\n')},
     # order-insensitive: the multiset of parameter types, spelled by reflect
     'reflect': {'func': 'InitZoo',
                 'in': ['<-chan main.Event', 'chan<- main.Event', 'chan *main.Event', '[]string', 'map[string]*main.Event', 'func(int, ...string) error',
                        '[3]int', 'interface { Name() string }', 'struct { X int }', '*main.Event', '**main.Event', '[]*main.Event'],
                 'out': ['*main.Zoo']}},
]


def pinned_signatures(w, cli, rep):
    """-> number of pinned packages checked"""
    root = w.path('pinned-root')
    os.makedirs(root, exist_ok=True)
    open(os.path.join(root, 'go.mod'), 'w').write(declgen.GOMOD % pl.REPO)
    shutil.copy(os.path.join(pl.REPO, 'go.sum'), os.path.join(root, 'go.sum'))
    n = 0
    for c in PINNED:
        d = os.path.join(root, 'pinned', c['id'])
        for fn, src in c['files'].items():
            os.makedirs(os.path.dirname(os.path.join(d, fn)), exist_ok=True)
            open(os.path.join(d, fn), 'w').write(src)
        p0 = pl.run(['go', 'build', '-o', os.devnull, '.'], cwd=d, env=pl.go_env(), timeout=600)
        if p0.returncode != 0:
            raise pl.ExitTwo('pinned package %s does not compile on its own: %s' % (c['id'], p0.stderr[-600:]))
        rc, so, se = pl.run_generator(cli, d)
        if rc != 0:
            rep.found('C10.pinned|refused|%s' % c['id'], 'valid hand-written package %s refused: %s' % (c['id'], se[-300:]), {'case': c})
            continue
        if 'reflect' in c:
            r_ = c['reflect']
            open(os.path.join(d, 'zz_pin_test.go'), 'w').write(
                'package main\n\nimport (\n\t"reflect"\n\t"sort"\n\t"strings"\n\t"testing"\n)\n\nfunc TestPin(t *testing.T) {\n'
                '\tft := reflect.TypeOf(%s)\n\tvar in, out []string\n\tfor i := 0; i < ft.NumIn(); i++ {\n\t\tin = append(in, ft.In(i).String())\n\t}\n'
                '\tfor i := 0; i < ft.NumOut(); i++ {\n\t\tout = append(out, ft.Out(i).String())\n\t}\n\tsort.Strings(in)\n'
                '\twantIn := %s\n\tsort.Strings(wantIn)\n\twantOut := %s\n'
                '\tif strings.Join(in, " | ") != strings.Join(wantIn, " | ") || strings.Join(out, " | ") != strings.Join(wantOut, " | ") {\n'
                '\t\tt.Fatalf("signature %%v, want parameters {%%s} results {%%s}", ft, strings.Join(wantIn, " | "), strings.Join(wantOut, " | "))\n\t}\n}\n'
                % (r_['func'], 'string'.join(['[]', '{' + ', '.join(json.dumps(x) for x in r_['in']) + '}']),
                   'string'.join(['[]', '{' + ', '.join(json.dumps(x) for x in r_['out']) + '}'])))
            p1 = pl.run(['go', 'test', '-vet=off', '-count=1', '-run', 'TestPin', '.'], cwd=d, env=pl.go_env(), timeout=600)
            if p1.returncode != 0:
                p1.stderr = p1.stdout + p1.stderr
        else:
            open(os.path.join(d, 'zz_pin.go'), 'w').write(c['pin'])
            p1 = pl.run(['go', 'build', '-o', os.devnull, '.'], cwd=d, env=pl.go_env(), timeout=600)
        n += 1
        if p1.returncode != 0:
            diag = re.sub(r'[\w/.-]*/', '', '\n'.join(p1.stderr.strip().splitlines()[1:3]))[:300]
            gen = open(os.path.join(d, 'k_band.go')).read() if os.path.exists(os.path.join(d, 'k_band.go')) else ''
            rep.found('C10.pinned|%s' % c['id'], 'the injector generated for the hand-written package %s does not have the pinned signature: %s' % (c['id'], diag),
                      {'case': c, 'generated': gen[:4000], 'diagnostics': p1.stderr[-800:]})
    return n


def main_c09_c10(prop, tier):
    sd = seed()
    rep = Report(prop, tier, 'model_checking')
    try:
        decls = batch_c09(tier, sd)
        byid = {d['id']: d for d in decls}
        pl.build_tools()
        rng = random.Random(sd)
        with pl.Work(prop) as w:
            cli = pl.build_cli(w)
            root = pl.make_scratch(w, decls)
            pre = {}
            for d in decls:
                # half of the declarations start with a leftover output file (recorded content and mtime)
                if rng.random() < 0.5:
                    p = os.path.join(root, d['id'], 'k_band.go')
                    open(p, 'w').write(STALE)
                    os.utime(p, (1600000000, 1600000000))
                    pre[d['id']] = True

            def one(d):
                return run_record(cli, os.path.join(root, d['id']), [d['id']], d['id'], list(d['types']), d['id'])
            records = pl.pmap(one, decls)
            # several declarations in one file: one function per declaration, or the whole file refused and untouched
            valid = [d for d in decls if ds.accepts(d) and d['id'][0] in 'gx']
            bad = [d for d in decls if not ds.accepts(d)]
            groups = []
            for g in range(6 if tier == 'quick' else 40):
                k = rng.choice([2, 3])
                members = [rng.choice(valid) for _ in range(k)]
                if g % 2 == 1 and bad:
                    members[rng.randrange(k)] = rng.choice(bad)
                # distinct base declarations only
                if len({m['id'] for m in members}) < k:
                    continue
                groups.append(ds.make_group('m%03d' % g, members))
            # two declarations of one file sharing their provider functions under different wrappers
            for g in range(6 if tier == 'quick' else 40):
                groups.append(ds.shared_group(rng, 'h%03d' % g, rng.choice(valid)))
            gdecls = [d for grp in groups for d in grp]
            if gdecls:
                groot = pl.make_scratch(w, gdecls, 'multi')
                for grp in groups:
                    if rng.random() < 0.5:
                        p = os.path.join(groot, grp[0]['group'], 'k_band.go')
                        open(p, 'w').write(STALE)
                        os.utime(p, (1600000000, 1600000000))

                def onegrp(grp):
                    types_ = [t for d in grp for t in d['types']]
                    return run_record(cli, os.path.join(groot, grp[0]['group']), [d['id'] for d in grp], grp[0]['group'], types_, grp[0]['group'])
                records += pl.pmap(onegrp, groups)
                decls = decls + gdecls
                byid.update({d['id']: d for d in gdecls})
            # several FILES per invocation (kessoku k0.go k1.go ...): a refused file makes the invocation fail wherever it
            # stands on the command line, and its own output file is left alone
            fgroups = []
            for g in range(6 if tier == 'quick' else 30):
                k = rng.choice([2, 3])
                members = [rng.choice(valid) for _ in range(k)]
                badpos = -1
                if g % 3 != 2 and bad:
                    badpos = rng.randrange(k)
                    members[badpos] = rng.choice(bad)
                if len({m['id'] for m in members}) < k:
                    continue
                grp = ds.make_group('f%03d' % g, members)
                fgroups.append((grp, badpos))
            if fgroups:
                froot = w.path('multifile')
                declgen.write_module(froot, repo=pl.REPO)

                def onefiles(t):
                    grp, badpos = t
                    d_ = os.path.join(froot, grp[0]['group'])
                    declgen.write_files(grp, d_)
                    files = ['k%d.go' % i for i in range(len(grp))]
                    watch = 'k%d_band.go' % (badpos if badpos >= 0 else 0)
                    outp = os.path.join(d_, watch)
                    pre_ = badpos >= 0 and badpos % 2 == 0
                    if pre_:
                        open(outp, 'w').write(STALE)
                        os.utime(outp, (1600000000, 1600000000))
                    before = (os.path.exists(outp), sha(outp), os.stat(outp).st_mtime_ns if os.path.exists(outp) else 0)
                    rc, so, se = pl.run_generator(cli, d_, files=tuple(files))
                    after = (os.path.exists(outp), sha(outp), os.stat(outp).st_mtime_ns if os.path.exists(outp) else 0)
                    out = 'absent' if not after[0] and not before[0] else 'created' if not before[0] else 'unchanged' if after == before else 'changed'
                    msg = '\n'.join(ln for ln in se.splitlines() if 'level=INFO' not in ln)
                    types_ = [t_ for d in grp for t_ in d['types']]
                    named = sorted({t_ for t_ in types_ if re.search(r'(?<![A-Za-z0-9_])%s(?![A-Za-z0-9_])' % re.escape(t_), msg)})
                    funcs = []
                    if rc == 0:
                        for i in range(len(grp)):
                            fo = funcs_of(os.path.join(d_, 'k%d_band.go' % i)) if os.path.exists(os.path.join(d_, 'k%d_band.go' % i)) else []
                            funcs += fo or []
                    return {'ev': 'Run', 'run': grp[0]['group'], 'decls': [d['id'] for d in grp], 'exit': rc, 'named': named, 'out': out, 'funcs': funcs,
                            'src': grp[0]['group'], 'outhash': after[1], 'stderr': msg[-600:]}
                records += pl.pmap(onefiles, fgroups)
                fdecls = [d for grp, _ in fgroups for d in grp]
                decls = decls + fdecls
                byid.update({d['id']: d for d in fdecls})
            npinned = pinned_signatures(w, cli, rep) if prop == 'C10' else 0
            vj, st = tlc_gen(w, decls, records)
            # the oracle itself: Decl.tla against the Python reference on this very batch
            chk = decl_crosscheck(w, decls)
            byrun = {r['run']: r for r in records}
            want = 'C09.' if prop == 'C09' else 'C10.'
            groups = collections.defaultdict(list)
            for v in vj['viol']:
                if not v['clause'].startswith(want):
                    continue
                d = byid.get(v['decl']) or byid.get(v['run'])
                r = byrun[v['run']]
                kind = 'valid'
                if d and d.get('planted'):
                    pk = d['planted']
                    kind = pk['kind'] + ':' + pk.get('via', '')
                elif d and d['ret'] not in ds.suppliers(d):
                    kind = 'requested-type-unsupplied'
                m = re.search(r'Error: (.*)', r['stderr'])
                why = ''
                if v['clause'] == 'C09.accept' and m:
                    why = re.sub(r'[A-Za-z0-9_/.*]*\.[TSIA]\d+', 'T', m.group(1))[:80]
                sig = '%s|%s|%s' % (v['clause'], kind, why)
                groups[sig].append((v, r, d))
            for sig, occ in sorted(groups.items()):
                v, r, d = occ[0]
                rep.found(sig, '%s: %d run(s); first: declaration %s exit=%s out=%s funcs=%s stderr=%s' % (
                    sig, len(occ), v['decl'] or v['run'], r['exit'], r['out'], json.dumps(r['funcs'])[:300], r['stderr'][-300:]),
                    {'decl': d, 'record': r, 'source': declgen.emit_decl_file(d) if d else ''})
            nbad = len([d for d in decls if not ds.accepts(d)])
            kinds = collections.Counter((d.get('planted') or {}).get('kind', 'valid') + ':' + (d.get('planted') or {}).get('via', '') for d in decls)
            rep.cov.update({
                'states': st, 'transitions': st, 'traces_validated_against_impl': len(records),
                'samples': [{'declaration': ds.tla_decl(decls[-1]), 'planted': decls[-1].get('planted'),
                             'record': {k: v for k, v in records[-1].items()}}],
                'declarations': len(decls), 'unsatisfiable_planted': nbad, 'valid': len(decls) - nbad, 'pinned_signature_packages': npinned,
                'with_preexisting_output': len(pre), 'kinds': dict(kinds),
                'oracle_crosscheck_declarations': chk,
                'evaluations': len(records), 'distinct_nontrivial': nbad,
                'rule': 'one evaluation = one real CLI invocation on one declaration; non-trivial = declaration with a planted '
                        'cycle / duplicate supplier / orphan Struct',
                'exhaustive': False,
            })
            rep.assumptions += ['Decl.tla Accepts/ExpectedSig is the oracle (cross-checked against an independent Python reference on the batch)',
                                'one declaration per file; "names the types involved" read minimally (DESIGN.md C09)']
    except pl.ExitTwo as e:
        rep.problem(str(e))
    return rep.finish()


def decl_crosscheck(w, decls):
    def expect(d):
        acc = ds.accepts(d)
        e = {'accepts': acc, 'ambiguous': sorted(ds.ambiguous(d)), 'orphans': sorted(set(ds.orphan_structs(d))),
             'cyclic': ds.reach_cyclic(d) if not ds.ambiguous(d) else False,
             'needed': [], 'args': [], 'sigparams': [], 'ctxfirst': False, 'haserr': False, 'eval': '', 'transdeps': {}}
        if acc:
            sig = ds.expected_sig(d)
            td = ds.trans_deps(d)
            e.update({'needed': ds.needed(d), 'args': ds.args_of(d), 'sigparams': sig['params'], 'ctxfirst': sig['ctx_first'],
                      'haserr': 'error' in sig['results'], 'eval': ds.eval_term(d),
                      'transdeps': {k: sorted(v) for k, v in td.items()}})
        return e
    r = pl.tlc(w, 'DeclCheck', 'DeclCheck.cfg', files={'decls.json': json.dumps([ds.tla_decl(d) for d in decls]),
                                                       'expect.json': json.dumps([expect(d) for d in decls])}, timeout=1800, name='declcheck')
    if r['rc'] != 0:
        raise pl.ExitTwo('Decl.tla and the Python reference disagree (or TLC failed): %s' % r['out'][-2500:])
    return len(decls)


# ---------------------------------------------------------------------------------------------------------------------
# C11

def main_c11(tier):
    sd = seed()
    rep = Report('C11', tier, 'exploration')
    quick = tier == 'quick'
    try:
        rng = random.Random(sd * 31 + 11)
        decls = []
        for i in range(10 if quick else 60):
            d = ds.random_decl(rng, 'h%03d' % i, nmin=3, nmax=7, zero_in_async=rng.choice([0, 2, 3]))
            if ds.accepts(d):
                decls.append(d)
        # one call closing several done-channels, wide fan-out: lists the generator builds from sets or maps
        for k_, n_ in enumerate((3, 4, 6) if quick else (2, 3, 4, 5, 6, 7, 8)):
            decls.append(ds.multi_fan_decl(rng, 'mf%02d' % k_, k=n_))
        decls.append(ds.wide_decl(rng, 'wd00', width=10, sync_root=True))
        pl.build_tools()
        with pl.Work('C11') as w:
            cli = pl.build_cli(w)
            root = pl.make_scratch(w, decls)
            records = []
            reps = 2 if quick else 5
            gmps = ['1', '2', '16']
            # reference output of every declaration, in a clean directory
            ref = {}

            def hist_runs(d):
                recs = []
                pk = os.path.join(root, d['id'])
                outp = os.path.join(pk, 'k_band.go')
                r0 = run_record(cli, pk, [d['id']], d['id'] + ':clean', list(d['types']), d['id'])
                recs.append(r0)
                own = open(outp, 'rb').read() if os.path.exists(outp) else b''
                # a different earlier version of the same declaration: injector renamed -> other function name in the leftover
                other = own.replace(d['injector'].encode(), b'earlierName')
                histories = {'own': own, 'truncated': own[: max(1, len(own) // 2)], 'stale-valid': STALE.encode(),
                             'earlier-version': other,
                             'stale-decls': b'package main\n\nvar t0, t1, ctx0 int\n\nfunc errgroup0() {}\n'}
                k = 0
                for hname, content in histories.items():
                    for g in (gmps if hname in ('own', 'earlier-version') else gmps[:1]):
                        for rp in range(reps if hname == 'own' else 1):
                            if content:
                                open(outp, 'wb').write(content)
                            elif os.path.exists(outp):
                                os.remove(outp)
                            recs.append(run_record(cli, pk, [d['id']], '%s:%s:g%s:%d' % (d['id'], hname, g, rp), list(d['types']),
                                                   d['id'], env_extra={'GOMAXPROCS': g}))
                            k += 1
                return recs
            for recs in pl.pmap(hist_runs, decls):
                records += recs
            # repository goldens and examples in a scratch copy of the working tree
            copy = w.path('repo-copy')
            shutil.copytree(pl.REPO, copy, ignore=shutil.ignore_patterns('.git'))
            opaque = []
            targets = []
            for src in sorted(glob.glob(os.path.join(copy, 'examples', '*', 'kessoku.go'))):
                targets.append((src, os.path.join(os.path.dirname(src), 'kessoku_band.go'), 'example'))
            for src in sorted(glob.glob(os.path.join(copy, 'internal', 'kessoku', 'testdata', '*', 'kessoku.go'))):
                targets.append((src, os.path.join(os.path.dirname(src), 'expected.go'), 'golden'))

            def opaque_runs(t):
                src, expectp, kind = t
                dirn = os.path.dirname(src)
                outp = os.path.join(dirn, 'kessoku_band.go')
                expect = sha(expectp) if os.path.exists(expectp) else ''
                recs = []
                key = kind + ':' + os.path.basename(dirn)
                for hname in (['checked-in', 'absent', 'truncated'] if kind == 'example' else ['absent', 'own']):
                    if hname == 'absent' and os.path.exists(outp):
                        os.remove(outp)
                    if hname == 'truncated' and os.path.exists(outp):
                        b = open(outp, 'rb').read()
                        open(outp, 'wb').write(b[: len(b) // 3])
                    for g in (['1', '16'] if quick else gmps):
                        env = pl.go_env({'GOMAXPROCS': g}, scratch=False)
                        env['GOFLAGS'] = ''
                        p = pl.run([cli, os.path.basename(src)], cwd=dirn, env=env, timeout=180)
                        recs.append({'ev': 'Opaque', 'run': '%s:%s:g%s' % (key, hname, g), 'exit': p.returncode, 'src': key,
                                     'outhash': sha(outp), 'expect': expect, 'stderr': p.stderr[-400:]})
                return recs
            for recs in pl.pmap(opaque_runs, targets, workers=8):
                opaque += recs
            # packages importing several packages that share a package NAME (text/template, html/template): the names the
            # generator gives them must not depend on process-level randomness
            import advgen
            acases = []
            for k in range(4 if quick else 12):
                acases.append(advgen.gen_case(rng, 'i%02d' % k, types_keys=['extalias', 'extcollide', rng.choice(['ptrstruct', 'extptr', 'mapext'])],
                                              force_async=(k % 2 == 0), ninj=1 + k % 2, nfiles=1))
            # types of packages no user file imports (reached through a library's signatures), same-named packages, 1-2 files per
            # invocation: the import names the generator invents must not depend on leftovers or on scheduling
            for k in range(4 if quick else 8):
                acases.append(advgen.transitive_case(rng, 'j%02d' % k, shadow_std=(k % 4 == 1), nfiles=1 + (k // 2) % 2, other_used=(k % 2 == 0)))
            for k in range(2 if quick else 6):
                acases.append(advgen.gen_case(rng, 'l%02d' % k, adversarial=True, ninj=1, nfiles=3, force_async=True))
            # one composite type mentioning several same-named packages nobody imports (w10-C11-1)
            for k in range(2 if quick else 6):
                acases.append(advgen.composite_transitive_case(rng, 'o%02d' % k, npk=4 + k % 3))
            aroot = w.path('adv-c11')
            advgen.write_cases(aroot, acases)

            def adv_runs(c):
                recs = []
                d = os.path.join(aroot, c.id)
                for rp in range(6 if quick else 12):
                    g = gmps[rp % len(gmps)]
                    rc, so, se = pl.run_generator(cli, d, files=tuple(c.invoke), env_extra={'GOMAXPROCS': g})
                    h = hashlib.sha256(b''.join(open(p, 'rb').read() for p in sorted(glob.glob(os.path.join(d, '*_band.go'))))).hexdigest()
                    recs.append({'ev': 'Opaque', 'run': 'adv:%s:rep%d:g%s' % (c.id, rp, g), 'exit': rc, 'src': 'adv:' + c.id, 'outhash': h, 'expect': '',
                                 'stderr': se[-300:]})
                    if rp % 2 == 1:
                        for p in glob.glob(os.path.join(d, '*_band.go')):
                            os.remove(p)
                return recs
            for recs in pl.pmap(adv_runs, acases, workers=8):
                opaque += recs
            allrec = records + opaque
            vj, st = tlc_gen(w, decls, allrec, name='c11')
            byrun = {r['run']: r for r in allrec}
            groups = collections.defaultdict(list)
            for v in vj['viol']:
                if not v['clause'].startswith('C11.'):
                    continue
                run = v['run']
                hist = run.split(':')[1] if ':' in run else ''
                if run.startswith('adv:'):
                    hist = 'same-name-imports'
                elif run.startswith('example:') or run.startswith('golden:'):
                    hist = run.split(':')[0] + ':' + run.split(':')[2]
                groups['%s|history=%s' % (v['clause'], hist)].append(v)
            for sig, occ in sorted(groups.items()):
                v = occ[0]
                r = byrun[v['run']]
                rep.found(sig, '%s: %d run(s); first run %s exit=%s outhash=%s stderr=%s' % (sig, len(occ), v['run'], r['exit'], r['outhash'][:12], r.get('stderr', '')[-300:]),
                          {'run': r, 'decl': next((d for d in decls if d['id'] == r['src']), None)})
            rep.cov.update({
                'evaluations': len(allrec), 'distinct_nontrivial': vj['inputs'],
                'rule': 'one evaluation = one CLI run in a fresh process; distinct = distinct input packages (seeded declarations, repository '
                        'goldens and examples), each run under several leftover-output histories x GOMAXPROCS x repetitions',
                'samples': [{k: v for k, v in allrec[1].items()}, {k: v for k, v in opaque[0].items()}] if opaque else [allrec[1]],
                'declarations': len(decls), 'goldens_and_examples': len(targets), 'trace_lines_validated_by_TLC': len(allrec),
                'states': st, 'histories': ['clean', 'own', 'truncated', 'stale-valid', 'earlier-version', 'stale-decls', 'checked-in', 'absent'],
                'exhaustive': False,
            })
            rep.assumptions += ['process-level randomness is exercised only through fresh processes and GOMAXPROCS in {1,2,16}']
    except pl.ExitTwo as e:
        rep.problem(str(e))
    return rep.finish()


if __name__ == '__main__':
    prop = sys.argv[1]
    tier = sys.argv[2] if len(sys.argv) > 2 else 'quick'
    if prop in ('C09', 'C10'):
        sys.exit(main_c09_c10(prop, tier))
    sys.exit(main_c11(tier))
