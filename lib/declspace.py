"""Declaration space of kessoku.Inject declarations: DeclSpec construction, reference semantics (the Python twin of
spec/Decl.tla, used for enumeration filters and cross-checked against TLC), exhaustive small-scope enumeration and
seeded random sampling.

A DeclSpec (dict):
  id, injector, ret (type name), types {name: {form: ptr|val|iface, fields: [[fname, tname], ...]}},
  providers [ {id, kind: fn|value|structexp, requires [tname|'ctx'], provides [[tname, alias...], ...],
               async, fallible, wrap: 'async-bind'|'bind-async', struct: tname|''} ],
  layout: nested list of provider ids and {'set': name, 'inline': bool, 'members': [...]}
  planted: None | {...}
Type names are opaque; 'ctx' stands for context.Context.
"""
import itertools
import random
import copy


# --------------------------------------------------------------------------------------------------------------------
# reference semantics

def field_providers(d):
    """Synthetic field-read providers of every struct expansion: (id, requires, provides, struct, field)."""
    out = []
    for p in d['providers']:
        if p['kind'] == 'structexp':
            for fname, ftype in sorted(d['types'][p['struct']].get('fields', [])):
                out.append({'id': p['id'] + '.' + fname, 'kind': 'field', 'requires': [p['struct']],
                            'provides': [[ftype]], 'async': False, 'fallible': False, 'struct': p['struct'],
                            'field': fname})
    return out


def eff_providers(d):
    return [p for p in d['providers'] if p['kind'] != 'structexp'] + field_providers(d)


def suppliers(d):
    """type -> list of (provider id, result index); a list longer than 1 means ambiguity."""
    s = {}
    for p in eff_providers(d):
        for k, grp in enumerate(p['provides']):
            for t in grp:
                s.setdefault(t, [])
                if (p['id'], k) not in s[t]:
                    s[t].append((p['id'], k))
    return s


def ambiguous(d):
    """types supplied by two different providers (the same provider may list a type in one group only once)."""
    out = set()
    seen = {}
    for p in eff_providers(d):
        for k, grp in enumerate(p['provides']):
            for t in grp:
                if t in seen and seen[t] != p['id']:
                    out.add(t)
                seen.setdefault(t, p['id'])
    return out


def orphan_structs(d):
    sup = suppliers(d)
    # kessoku looks the struct type up among the non-struct providers only
    base = {}
    for p in d['providers']:
        if p['kind'] in ('fn', 'value'):
            for grp in p['provides']:
                for t in grp:
                    base[t] = True
    return [p['struct'] for p in d['providers'] if p['kind'] == 'structexp' and p['struct'] not in base]


def needed(d):
    sup = suppliers(d)
    byid = {p['id']: p for p in eff_providers(d)}
    need = []
    todo = [d['ret']]
    seen_t = set()
    while todo:
        t = todo.pop(0)
        if t in seen_t:
            continue
        seen_t.add(t)
        if t in sup:
            pid = sup[t][0][0]
            if pid not in need:
                need.append(pid)
                todo.extend(byid[pid]['requires'])
    return need


def reach_cyclic(d):
    """Is there a dependency cycle among the needed providers?"""
    sup = suppliers(d)
    byid = {p['id']: p for p in eff_providers(d)}
    need = set(needed(d))
    color = {}

    def dfs(pid):
        color[pid] = 1
        for t in byid[pid]['requires']:
            if t in sup:
                q = sup[t][0][0]
                if q not in need:
                    continue
                if color.get(q) == 1:
                    return True
                if q not in color and dfs(q):
                    return True
        color[pid] = 2
        return False
    return any(dfs(p) for p in need if p not in color)


def any_cyclic(d):
    sup = suppliers(d)
    byid = {p['id']: p for p in eff_providers(d)}
    color = {}

    def dfs(pid):
        color[pid] = 1
        for t in byid[pid]['requires']:
            if t in sup:
                q = sup[t][0][0]
                if color.get(q) == 1:
                    return True
                if q not in color and dfs(q):
                    return True
        color[pid] = 2
        return False
    return any(dfs(p) for p in byid if p not in color)


def accepts(d):
    return not ambiguous(d) and not orphan_structs(d) and not reach_cyclic(d)


def args_of(d):
    """Unsupplied types required by needed providers (or the requested type itself), in no particular order."""
    sup = suppliers(d)
    byid = {p['id']: p for p in eff_providers(d)}
    out = []
    if d['ret'] not in sup:
        return [d['ret']]
    for pid in needed(d):
        for t in byid[pid]['requires']:
            if t not in sup and t not in out:
                out.append(t)
    return out


def expected_sig(d):
    byid = {p['id']: p for p in eff_providers(d)}
    need = needed(d)
    a = args_of(d)
    need_async = any(byid[p]['async'] for p in need)
    params = sorted(a)
    if need_async and 'ctx' not in params:
        params.append('ctx')
    return {'name': d['injector'], 'params': sorted(params), 'ctx_first': need_async,
            'results': [d['ret']] + (['error'] if any(byid[p]['fallible'] for p in need) else [])}


def eval_term(d, t=None, _depth=0):
    sup = suppliers(d)
    byid = {p['id']: p for p in eff_providers(d)}
    if t is None:
        t = d['ret']
    if _depth > 64:
        raise RecursionError('cyclic')
    if t not in sup:
        return 'ctx' if t == 'ctx' else 'arg:' + t
    pid, k = sup[t][0]
    p = byid[pid]
    if p['kind'] == 'field':
        return 'fld(' + eval_term(d, p['struct'], _depth + 1) + ',' + p['field'] + ')'
    return pid + '(' + ','.join(eval_term(d, r, _depth + 1) for r in p['requires']) + ')#' + str(k)


def trans_deps(d):
    """provider id -> set of provider ids it transitively depends on (among effective providers)."""
    sup = suppliers(d)
    byid = {p['id']: p for p in eff_providers(d)}
    memo = {}

    def go(pid, stack=()):
        if pid in memo:
            return memo[pid]
        if pid in stack:
            return set()
        s = set()
        for t in byid[pid]['requires']:
            if t in sup:
                q = sup[t][0][0]
                s.add(q)
                s |= go(q, stack + (pid,))
        memo[pid] = s
        return s
    return {p: go(p) for p in byid}


def tla_decl(d):
    """Uniform-record form read by the TLA+ modules through JsonDeserialize."""
    provs = []
    for p in d['providers']:
        fields = []
        if p['kind'] == 'structexp':
            fields = [[f, t] for f, t in sorted(d['types'][p['struct']].get('fields', []))]
        provs.append({'id': p['id'], 'kind': p['kind'], 'requires': list(p.get('requires', [])),
                      'provides': [list(g) for g in p.get('provides', [])], 'async': bool(p.get('async')),
                      'fallible': bool(p.get('fallible')), 'struct': p.get('struct', ''), 'fields': fields})
    return {'id': d['id'], 'injector': d['injector'], 'ret': d['ret'], 'providers': provs}


# --------------------------------------------------------------------------------------------------------------------
# construction helpers

def mk_decl(did, n_types, edges, ret, asyncs=(), fallibles=(), forms=None, injector=None):
    """Plain function-provider DAG: provider Pi provides Ti and requires Tj for (j -> i) in edges; types >= n_types
    that are referenced but not provided become arguments (named A<k>)."""
    types = {}
    provs = []
    for i in range(n_types):
        types['T%d' % i] = {'form': (forms[i] if forms else ('ptr' if i % 2 == 0 else 'val'))}
        req = [e[0] for e in edges if e[1] == i]
        reqn = []
        for r in req:
            if isinstance(r, int):
                reqn.append('T%d' % r)
            else:
                reqn.append(r)
                if r != 'ctx':
                    types.setdefault(r, {'form': 'ptr' if (sum(map(ord, r)) % 2 == 0) else 'val'})
        provs.append({'id': 'P%d' % i, 'kind': 'fn', 'requires': reqn, 'provides': [['T%d' % i]],
                      'async': i in asyncs, 'fallible': i in fallibles, 'wrap': 'async-bind', 'struct': ''})
    return {'id': did, 'injector': injector or ('Init_' + did), 'ret': 'T%d' % ret, 'types': types,
            'providers': provs, 'layout': [p['id'] for p in provs], 'planted': None}


def all_dags(n):
    """All DAGs on n topologically numbered nodes (edge i->j only for i<j) in which node n-1 (the requested type)
    reaches... no restriction: unneeded providers are part of the space."""
    pairs = [(i, j) for j in range(n) for i in range(j)]
    for mask in range(1 << len(pairs)):
        yield [pairs[k] for k in range(len(pairs)) if mask >> k & 1]


def subsets(xs):
    xs = list(xs)
    for r in range(len(xs) + 1):
        for c in itertools.combinations(xs, r):
            yield set(c)


def exhaustive_small(nmax=3, with_fallible=True, with_args=False):
    """Every DAG on n<=nmax providers x every Async subset x (every fallible subset)."""
    out = []
    k = 0
    for n in range(1, nmax + 1):
        for edges in all_dags(n):
            for a in subsets(range(n)):
                fsets = subsets(range(n)) if with_fallible else [set()]
                for f in fsets:
                    d = mk_decl('x%04d' % k, n, edges, n - 1, a, f)
                    out.append(d)
                    k += 1
    return out


# --------------------------------------------------------------------------------------------------------------------
# seeded random declarations with every construct

def random_decl(rng, did, nmin=3, nmax=7, p_async=0.45, p_fallible=0.3, constructs=True, ensure_async=False,
                zero_in_async=0):
    """A random accepted declaration.  Providers are created in topological order; each picks its inputs among the
    types produced so far (or fresh argument types, or ctx)."""
    n = rng.randint(nmin, nmax)
    types = {}
    provs = []
    produced = []  # type names available as inputs (supplied)
    argtypes = []
    tcount = [0]
    icount = [0]
    scount = [0]

    def new_type(prefix='T', form=None):
        name = '%s%d' % (prefix, tcount[0])
        tcount[0] += 1
        types[name] = {'form': form or rng.choice(['ptr', 'val'])}
        return name

    def new_arg():
        name = 'A%d' % len(argtypes)
        types[name] = {'form': rng.choice(['ptr', 'val'])}
        argtypes.append(name)
        return name

    pending_struct = []
    zia = 0
    for i in range(n):
        pid = 'P%d' % i
        kind = 'fn'
        if constructs and rng.random() < 0.12:
            kind = 'value'
        if kind == 'value':
            t = new_type()
            provs.append({'id': 'V%d' % i, 'kind': 'value', 'requires': [], 'provides': [[t]], 'async': False,
                          'fallible': False, 'wrap': 'async-bind', 'struct': ''})
            produced.append(t)
            continue
        # inputs
        req = []
        force_zero = zia < zero_in_async
        if not force_zero:
            kmax = min(3, len(produced))
            for t in rng.sample(produced, rng.randint(0, kmax)) if produced else []:
                req.append(t)
            if rng.random() < 0.25:
                if argtypes and rng.random() < 0.5:
                    a = rng.choice(argtypes)
                    if a not in req:
                        req.append(a)
                else:
                    req.append(new_arg())
            if constructs and rng.random() < 0.12:
                req.insert(rng.randint(0, len(req)), 'ctx')
        # outputs
        groups = []
        nres = 1
        if constructs and rng.random() < 0.2:
            nres = 2
        for _ in range(nres):
            if constructs and rng.random() < 0.15:
                # a struct type with 2 fields, to be expanded
                sname = 'S%d' % scount[0]
                scount[0] += 1
                f1, f2 = new_type(), new_type()
                types[sname] = {'form': rng.choice(['ptr', 'val']), 'fields': [['Fa', f1], ['Fb', f2]]}
                groups.append([sname])
                pending_struct.append(sname)
            else:
                groups.append([new_type()])
        bind = False
        if constructs and rng.random() < 0.2:
            iname = 'I%d' % icount[0]
            icount[0] += 1
            types[iname] = {'form': 'iface'}
            groups[0].append(iname)
            bind = True
        is_async = rng.random() < p_async or force_zero
        if force_zero:
            zia += 1
        provs.append({'id': pid, 'kind': 'fn', 'requires': req, 'provides': groups, 'async': is_async,
                      'fallible': rng.random() < p_fallible, 'wrap': rng.choice(['async-bind', 'bind-async']),
                      'struct': ''})
        for g in groups:
            for t in g:
                produced.append(t)
        # struct expansions (maybe)
        for s in list(pending_struct):
            if rng.random() < 0.8:
                provs.append({'id': 'X%s' % s[1:], 'kind': 'structexp', 'requires': [], 'provides': [],
                              'async': False, 'fallible': False, 'wrap': 'async-bind', 'struct': s})
                for fn_, ft in types[s]['fields']:
                    produced.append(ft)
            pending_struct.remove(s)
    # requested type: prefer something late so that much is needed
    cands = list(produced)
    ret = cands[-1] if rng.random() < 0.6 else rng.choice(cands)
    d = {'id': did, 'injector': 'Init_' + did, 'ret': ret, 'types': types, 'providers': provs,
         'layout': None, 'planted': None}
    # make the sink depend on a good part of the graph: add a final consumer with probability
    if rng.random() < 0.7:
        k = min(len(produced), rng.randint(2, 4))
        req = rng.sample(produced, k)
        t = new_type()
        provs.append({'id': 'P%d' % n, 'kind': 'fn', 'requires': req, 'provides': [[t]], 'async': rng.random() < 0.2,
                      'fallible': rng.random() < p_fallible, 'wrap': 'async-bind', 'struct': ''})
        d['ret'] = t
    d['layout'] = random_layout(rng, [p['id'] for p in provs]) if constructs else [p['id'] for p in provs]
    return d


def random_layout(rng, ids):
    ids = list(ids)
    rng.shuffle(ids)
    out = []
    nset = 0
    i = 0
    while i < len(ids):
        if rng.random() < 0.3 and len(ids) - i >= 2:
            k = rng.randint(2, min(3, len(ids) - i))
            members = ids[i:i + k]
            i += k
            if rng.random() < 0.3 and len(members) >= 2:
                members = [members[0], {'set': 'Set%d' % (nset + 100), 'inline': rng.random() < 0.5,
                                        'members': members[1:]}]
            out.append({'set': 'Set%d' % nset, 'inline': rng.random() < 0.4, 'members': members})
            nset += 1
        else:
            out.append(ids[i])
            i += 1
    return out


def flatten_layout(layout):
    out = []
    for x in layout:
        if isinstance(x, dict):
            out.extend(flatten_layout(x['members']))
        else:
            out.append(x)
    return out


def rename(d, did):
    d = copy.deepcopy(d)
    d['id'] = did
    d['injector'] = 'Init_' + did
    return d
