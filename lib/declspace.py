"""Declaration space of kessoku.Inject declarations: DeclSpec construction, reference semantics (the Python twin of
spec/Decl.tla, used for enumeration filters and cross-checked against TLC), exhaustive small-scope enumeration and
seeded random sampling.

A DeclSpec (dict):
  id, injector, ret (type name), types {name: {form: ptr|val|iface, fields: [[fname, tname], ...]}},
  providers [ {id, kind: fn|value|structexp, requires [tname|'ctx'], provides [[tname, alias...], ...],
               async, fallible, wrap: 'async-bind'|'bind-async', struct: tname|''} ],
  layout: nested list of provider ids and {'set': name, 'inline': bool, 'members': [...]}
  planted: None | {...}
Type names are opaque; 'ctx' stands for context.Context.
"""
import itertools
import random
import copy


# --------------------------------------------------------------------------------------------------------------------
# reference semantics

def field_providers(d):
    """Synthetic field-read providers of every struct expansion: (id, requires, provides, struct, field)."""
    out = []
    for p in d['providers']:
        if p['kind'] == 'structexp':
            for fname, ftype in sorted(d['types'][p['struct']].get('fields', [])):
                out.append({'id': p['id'] + '.' + fname, 'kind': 'field', 'requires': [p['struct']],
                            'provides': [[ftype]], 'async': False, 'fallible': False, 'struct': p['struct'],
                            'field': fname})
    return out


def eff_providers(d):
    return [p for p in d['providers'] if p['kind'] != 'structexp'] + field_providers(d)


def suppliers(d):
    """type -> list of (provider id, result index); a list longer than 1 means ambiguity."""
    s = {}
    for p in eff_providers(d):
        for k, grp in enumerate(p['provides']):
            for t in grp:
                s.setdefault(t, [])
                if (p['id'], k) not in s[t]:
                    s[t].append((p['id'], k))
    return s


def ambiguous(d):
    """types supplied by two different providers (the same provider may list a type in one group only once)."""
    out = set()
    seen = {}
    for p in eff_providers(d):
        for k, grp in enumerate(p['provides']):
            for t in grp:
                if t in seen and seen[t] != p['id']:
                    out.add(t)
                seen.setdefault(t, p['id'])
    return out


def orphan_structs(d):
    sup = suppliers(d)
    # kessoku looks the struct type up among the non-struct providers only
    base = {}
    for p in d['providers']:
        if p['kind'] in ('fn', 'value'):
            for grp in p['provides']:
                for t in grp:
                    base[t] = True
    return [p['struct'] for p in d['providers'] if p['kind'] == 'structexp' and p['struct'] not in base]


def needed(d):
    sup = suppliers(d)
    byid = {p['id']: p for p in eff_providers(d)}
    need = []
    todo = [d['ret']]
    seen_t = set()
    while todo:
        t = todo.pop(0)
        if t in seen_t:
            continue
        seen_t.add(t)
        if t in sup:
            pid = sup[t][0][0]
            if pid not in need:
                need.append(pid)
                todo.extend(byid[pid]['requires'])
    return need


def reach_cyclic(d):
    """Is there a dependency cycle among the needed providers?"""
    sup = suppliers(d)
    byid = {p['id']: p for p in eff_providers(d)}
    need = set(needed(d))
    color = {}

    def dfs(pid):
        color[pid] = 1
        for t in byid[pid]['requires']:
            if t in sup:
                q = sup[t][0][0]
                if q not in need:
                    continue
                if color.get(q) == 1:
                    return True
                if q not in color and dfs(q):
                    return True
        color[pid] = 2
        return False
    return any(dfs(p) for p in need if p not in color)


def any_cyclic(d):
    sup = suppliers(d)
    byid = {p['id']: p for p in eff_providers(d)}
    color = {}

    def dfs(pid):
        color[pid] = 1
        for t in byid[pid]['requires']:
            if t in sup:
                q = sup[t][0][0]
                if color.get(q) == 1:
                    return True
                if q not in color and dfs(q):
                    return True
        color[pid] = 2
        return False
    return any(dfs(p) for p in byid if p not in color)


def accepts(d):
    return not ambiguous(d) and not orphan_structs(d) and not reach_cyclic(d)


def args_of(d):
    """Unsupplied types required by needed providers (or the requested type itself), in no particular order."""
    sup = suppliers(d)
    byid = {p['id']: p for p in eff_providers(d)}
    out = []
    if d['ret'] not in sup:
        return [d['ret']]
    for pid in needed(d):
        for t in byid[pid]['requires']:
            if t not in sup and t not in out:
                out.append(t)
    return out


def expected_sig(d):
    byid = {p['id']: p for p in eff_providers(d)}
    need = needed(d)
    a = args_of(d)
    need_async = any(byid[p]['async'] for p in need)
    params = sorted(a)
    if need_async and 'ctx' not in params:
        params.append('ctx')
    return {'name': d['injector'], 'params': sorted(params), 'ctx_first': need_async,
            'results': [d['ret']] + (['error'] if any(byid[p]['fallible'] for p in need) else [])}


def eval_term(d, t=None, _depth=0):
    sup = suppliers(d)
    byid = {p['id']: p for p in eff_providers(d)}
    if t is None:
        t = d['ret']
    if _depth > 64:
        raise RecursionError('cyclic')
    if t not in sup:
        return 'ctx' if t == 'ctx' else 'arg:' + t
    pid, k = sup[t][0]
    p = byid[pid]
    if p['kind'] == 'field':
        return 'fld(' + eval_term(d, p['struct'], _depth + 1) + ',' + p['field'] + ')'
    return pid + '(' + ','.join(eval_term(d, r, _depth + 1) for r in p['requires']) + ')#' + str(k)


def trans_deps(d):
    """provider id -> set of provider ids it transitively depends on (among effective providers); a provider on a
    cycle is in its own set."""
    sup = suppliers(d)
    byid = {p['id']: p for p in eff_providers(d)}
    direct = {}
    for pid, p in byid.items():
        direct[pid] = {sup[t][0][0] for t in p['requires'] if t in sup}
    out = {}
    for pid in byid:
        seen = set()
        todo = list(direct[pid])
        while todo:
            q = todo.pop()
            if q in seen:
                continue
            seen.add(q)
            todo.extend(direct[q])
        out[pid] = seen
    return out


def tla_decl(d):
    """Uniform-record form read by the TLA+ modules through JsonDeserialize."""
    provs = []
    for p in d['providers']:
        fields = []
        if p['kind'] == 'structexp':
            fields = [[f, t] for f, t in sorted(d['types'][p['struct']].get('fields', []))]
        provs.append({'id': p['id'], 'kind': p['kind'], 'requires': list(p.get('requires', [])),
                      'provides': [list(g) for g in p.get('provides', [])], 'async': bool(p.get('async')),
                      'fallible': bool(p.get('fallible')), 'struct': p.get('struct', ''), 'fields': fields})
    return {'id': d['id'], 'injector': d['injector'], 'ret': d['ret'], 'providers': provs}


# --------------------------------------------------------------------------------------------------------------------
# construction helpers

def mk_decl(did, n_types, edges, ret, asyncs=(), fallibles=(), forms=None, injector=None):
    """Plain function-provider DAG: provider Pi provides Ti and requires Tj for (j -> i) in edges; types >= n_types
    that are referenced but not provided become arguments (named A<k>)."""
    types = {}
    provs = []
    for i in range(n_types):
        types['T%d' % i] = {'form': (forms[i] if forms else ('ptr' if i % 2 == 0 else 'val'))}
        req = [e[0] for e in edges if e[1] == i]
        reqn = []
        for r in req:
            if isinstance(r, int):
                reqn.append('T%d' % r)
            else:
                reqn.append(r)
                if r != 'ctx':
                    types.setdefault(r, {'form': 'ptr' if (sum(map(ord, r)) % 2 == 0) else 'val'})
        provs.append({'id': 'P%d' % i, 'kind': 'fn', 'requires': reqn, 'provides': [['T%d' % i]],
                      'async': i in asyncs, 'fallible': i in fallibles, 'wrap': 'async-bind', 'struct': ''})
    return {'id': did, 'injector': injector or ('Init_' + did), 'ret': 'T%d' % ret, 'types': types,
            'providers': provs, 'layout': [p['id'] for p in provs], 'planted': None}


def all_dags(n):
    """All DAGs on n topologically numbered nodes (edge i->j only for i<j) in which node n-1 (the requested type)
    reaches... no restriction: unneeded providers are part of the space."""
    pairs = [(i, j) for j in range(n) for i in range(j)]
    for mask in range(1 << len(pairs)):
        yield [pairs[k] for k in range(len(pairs)) if mask >> k & 1]


def subsets(xs):
    xs = list(xs)
    for r in range(len(xs) + 1):
        for c in itertools.combinations(xs, r):
            yield set(c)


def exhaustive_small(nmax=3, with_fallible=True, with_args=False):
    """Every DAG on n<=nmax providers x every Async subset x (every fallible subset)."""
    out = []
    k = 0
    for n in range(1, nmax + 1):
        for edges in all_dags(n):
            for a in subsets(range(n)):
                fsets = subsets(range(n)) if with_fallible else [set()]
                for f in fsets:
                    d = mk_decl('x%04d' % k, n, edges, n - 1, a, f)
                    out.append(d)
                    k += 1
    return out


# --------------------------------------------------------------------------------------------------------------------
# seeded random declarations with every construct

def random_decl(rng, did, nmin=3, nmax=7, p_async=0.45, p_fallible=0.3, constructs=True, ensure_async=False,
                zero_in_async=0):
    """A random accepted declaration.  Providers are created in topological order; each picks its inputs among the
    types produced so far (or fresh argument types, or ctx)."""
    n = rng.randint(nmin, nmax)
    types = {}
    provs = []
    produced = []  # type names available as inputs (supplied)
    argtypes = []
    tcount = [0]
    icount = [0]
    scount = [0]

    def new_type(prefix='T', form=None):
        name = '%s%d' % (prefix, tcount[0])
        tcount[0] += 1
        types[name] = {'form': form or rng.choice(['ptr', 'val'])}
        if constructs and rng.random() < 0.15:
            types[name]['alias'] = True      # declared as `type T = TU`
        return name

    def new_arg():
        name = 'A%d' % len(argtypes)
        types[name] = {'form': rng.choice(['ptr', 'val'])}
        if constructs and rng.random() < 0.15:
            types[name]['alias'] = True
        argtypes.append(name)
        return name

    pending_struct = []
    multi_sources = []
    zia = 0
    for i in range(n):
        pid = 'P%d' % i
        kind = 'fn'
        if constructs and rng.random() < 0.12:
            kind = 'value'
        if kind == 'value':
            t = new_type()
            provs.append({'id': 'V%d' % i, 'kind': 'value', 'requires': [], 'provides': [[t]], 'async': False,
                          'fallible': False, 'wrap': 'async-bind', 'struct': ''})
            produced.append(t)
            continue
        # inputs
        req = []
        force_zero = zia < zero_in_async
        if not force_zero:
            kmax = min(3, len(produced))
            for t in rng.sample(produced, rng.randint(0, kmax)) if produced else []:
                req.append(t)
            if rng.random() < 0.25:
                if argtypes and rng.random() < 0.5:
                    a = rng.choice(argtypes)
                    if a not in req:
                        req.append(a)
                else:
                    req.append(new_arg())
            if constructs and rng.random() < 0.12:
                req.insert(rng.randint(0, len(req)), 'ctx')
            # several values from ONE producer: both results of a multi-value provider, a type and its Bind alias,
            # or the same type required twice
            if multi_sources and rng.random() < 0.35:
                src = rng.choice(multi_sources)
                for t in src:
                    if t not in req:
                        req.insert(rng.randint(0, len(req)), t)
            if req and rng.random() < 0.12:
                t = rng.choice([r for r in req])
                if t != 'ctx':
                    req.insert(rng.randint(0, len(req)), t)
        # outputs
        groups = []
        nres = 1
        if constructs and rng.random() < 0.2:
            nres = 2
        for ri in range(nres):
            if ri == 1 and rng.random() < 0.35:
                # the second result is an interface value (returned as such, no Bind); the first result implements it too
                iname = 'I%d' % icount[0]
                icount[0] += 1
                types[iname] = {'form': 'iface', 'bare': True}
                groups.append([iname])
                continue
            if constructs and rng.random() < 0.15:
                # a struct type with 2 fields, to be expanded
                sname = 'S%d' % scount[0]
                scount[0] += 1
                f1, f2 = new_type(), new_type()
                for ft_ in (f1, f2):
                    if rng.random() < 0.4:
                        types[ft_]['alias'] = True      # field types declared as aliases
                types[sname] = {'form': rng.choice(['ptr', 'val']), 'fields': [['Fa', f1], ['Fb', f2]]}
                groups.append([sname])
                pending_struct.append(sname)
            else:
                groups.append([new_type()])
        bind = False
        if constructs and rng.random() < 0.2:
            iname = 'I%d' % icount[0]
            icount[0] += 1
            types[iname] = {'form': 'iface'}
            groups[0].append(iname)
            bind = True
        is_async = rng.random() < p_async or force_zero
        if force_zero:
            zia += 1
        provs.append({'id': pid, 'kind': 'fn', 'requires': req, 'provides': groups, 'async': is_async,
                      'fallible': rng.random() < p_fallible, 'wrap': rng.choice(['async-bind', 'bind-async']),
                      'struct': ''})
        for g in groups:
            for t in g:
                produced.append(t)
        allt = [t for g in groups for t in g]
        if len(allt) >= 2:
            multi_sources.append(allt)
        # struct expansions (maybe)
        for s in list(pending_struct):
            if rng.random() < 0.8:
                provs.append({'id': 'X%s' % s[1:], 'kind': 'structexp', 'requires': [], 'provides': [],
                              'async': rng.random() < 0.35, 'fallible': False, 'wrap': 'async-bind', 'struct': s})
                for fn_, ft in types[s]['fields']:
                    produced.append(ft)
            pending_struct.remove(s)
    # requested type: prefer something late so that much is needed
    cands = list(produced)
    ret = cands[-1] if rng.random() < 0.6 else rng.choice(cands)
    d = {'id': did, 'injector': 'Init_' + did, 'ret': ret, 'types': types, 'providers': provs,
         'layout': None, 'planted': None}
    # make the sink depend on a good part of the graph: add a final consumer with probability
    if rng.random() < 0.8:
        # the sink consumes what nobody else consumes (so that most of the graph is needed), up to 5 inputs
        consumed = {r for p in provs for r in p.get('requires', [])}
        expanded = {p['struct'] for p in provs if p['kind'] == 'structexp'}
        loose = [t for t in produced if t not in consumed and t not in expanded and types[t]['form'] != 'iface']
        rng.shuffle(loose)
        req = loose[:5]
        if len(req) < 2:
            req += [t for t in rng.sample(produced, min(len(produced), 3)) if t not in req]
        rng.shuffle(req)
        t = new_type()
        provs.append({'id': 'P%d' % n, 'kind': 'fn', 'requires': req, 'provides': [[t]], 'async': rng.random() < 0.2,
                      'fallible': rng.random() < p_fallible, 'wrap': 'async-bind', 'struct': ''})
        d['ret'] = t
    d['layout'] = random_layout(rng, [p['id'] for p in provs]) if constructs else [p['id'] for p in provs]
    if constructs:
        d['multi_name_sets'] = rng.random() < 0.4
        for p in provs:
            if p['kind'] == 'fn' and not p['requires'] and not p['fallible'] and len(p['provides']) == 1 and len(p['provides'][0]) == 1 \
                    and rng.random() < 0.25:
                p['as_value_call'] = True      # kessoku.Value(P()) / kessoku.Async(kessoku.Value(P()))
            if p['kind'] == 'fn' and p['fallible'] and rng.random() < 0.25:
                p['alias_error'] = True        # func P(...) (T, Failure) with type Failure = error
    return d


def random_layout(rng, ids):
    ids = list(ids)
    rng.shuffle(ids)
    out = []
    nset = 0
    i = 0
    while i < len(ids):
        if rng.random() < 0.3 and len(ids) - i >= 2:
            k = rng.randint(2, min(3, len(ids) - i))
            members = ids[i:i + k]
            i += k
            if rng.random() < 0.3 and len(members) >= 2:
                members = [members[0], {'set': 'Set%d' % (nset + 100), 'inline': rng.random() < 0.5,
                                        'members': members[1:]}]
            out.append({'set': 'Set%d' % nset, 'inline': rng.random() < 0.4, 'members': members})
            nset += 1
        else:
            out.append(ids[i])
            i += 1
    return out


def flatten_layout(layout):
    out = []
    for x in layout:
        if isinstance(x, dict):
            out.extend(flatten_layout(x['members']))
        else:
            out.append(x)
    return out


def rename(d, did):
    d = copy.deepcopy(d)
    d['id'] = did
    d['injector'] = 'Init_' + did
    return d


# --------------------------------------------------------------------------------------------------------------------
# planted defects (C09): every planted declaration is still well-typed Go, only the provider graph is unsatisfiable

def _fresh(d, prefix):
    k = 0
    while '%s%d' % (prefix, 900 + k) in d['types'] or any(p['id'] == '%s%d' % (prefix, 900 + k) for p in d['providers']):
        k += 1
    return '%s%d' % (prefix, 900 + k)


def plant_cycles(d):
    """All single back edges: for needed fn providers a and b with b upstream of (or equal to) a, make b require one of
    the types a supplies (result type, Bind alias, second result, or an expanded field of a's struct result)."""
    out = []
    if not accepts(d):
        return out
    eff = {p['id']: p for p in eff_providers(d)}
    td = trans_deps(d)
    need = [p for p in needed(d) if eff[p]['kind'] == 'fn']
    n = 0
    for a in need:
        ups = [b for b in need if b == a or b in td[a]]
        # types whose production depends on a: a's own outputs + fields expanded from a's struct outputs
        outs = []
        for g in eff[a]['provides']:
            for t in g:
                outs.append((t, 'bind' if t != g[0] else ('multi' if len(eff[a]['provides']) > 1 else 'fn')))
        for x in d['providers']:
            if x['kind'] == 'structexp' and any(x['struct'] in g for g in eff[a]['provides']):
                for fn_, ft in d['types'][x['struct']].get('fields', []):
                    outs.append((ft, 'field'))
        for b in ups:
            for t, via in outs:
                if t in eff[b]['requires']:
                    continue
                v = copy.deepcopy(d)
                for p in v['providers']:
                    if p['id'] == b:
                        p['requires'] = list(p['requires']) + [t]
                v['id'] = '%sc%d' % (d['id'], n)
                v['injector'] = 'Init_' + v['id']
                v['planted'] = {'kind': 'cycle', 'from': a, 'to': b, 'type': t, 'via': via, 'self': a == b}
                n += 1
                if not ambiguous(v) and reach_cyclic(v):
                    out.append(v)
    return out


def plant_dups(d):
    out = []
    if not accepts(d):
        return out
    sup = suppliers(d)
    n = 0
    supplied = sorted(t for t in sup if t != 'ctx')
    for t in supplied:
        form = d['types'][t]['form']
        # (i) a second function provider of t (not for interfaces: nothing returns a bare interface here)
        if form != 'iface':
            v = copy.deepcopy(d)
            pid = _fresh(v, 'P')
            v['providers'].append({'id': pid, 'kind': 'fn', 'requires': [], 'provides': [[t]], 'async': False,
                                   'fallible': False, 'wrap': 'async-bind', 'struct': ''})
            v['layout'] = list(v['layout']) + [pid]
            v['planted'] = {'kind': 'dup', 'type': t, 'via': 'fn'}
            v['id'] = '%sd%d' % (d['id'], n)
            n += 1
            out.append(v)
        # (ii) a struct field of type t, expanded
        if form != 'iface' and 'fields' not in d['types'][t]:
            v = copy.deepcopy(d)
            s = _fresh(v, 'S')
            other = _fresh(v, 'T')
            v['types'][other] = {'form': 'val'}
            v['types'][s] = {'form': 'ptr', 'fields': [['Fa', t], ['Fb', other]]}
            pid = _fresh(v, 'P')
            v['providers'].append({'id': pid, 'kind': 'fn', 'requires': [], 'provides': [[s]], 'async': False,
                                   'fallible': False, 'wrap': 'async-bind', 'struct': ''})
            xid = 'X' + s[1:]
            v['providers'].append({'id': xid, 'kind': 'structexp', 'requires': [], 'provides': [], 'async': False,
                                   'fallible': False, 'wrap': 'async-bind', 'struct': s})
            v['layout'] = list(v['layout']) + [pid, xid]
            v['planted'] = {'kind': 'dup', 'type': t, 'via': 'field'}
            v['id'] = '%sd%d' % (d['id'], n)
            n += 1
            out.append(v)
    # (iii) Bind: the same interface bound on two different providers
    fns = [p for p in d['providers'] if p['kind'] == 'fn']
    if len(fns) >= 2:
        v = copy.deepcopy(d)
        i = _fresh(v, 'I')
        v['types'][i] = {'form': 'iface'}
        k = 0
        for p in v['providers']:
            if p['kind'] == 'fn' and k < 2 and 'fields' not in v['types'][p['provides'][0][0]]:
                p['provides'][0] = list(p['provides'][0]) + [i]
                k += 1
        if k == 2:
            v['planted'] = {'kind': 'dup', 'type': i, 'via': 'bind'}
            v['id'] = '%sd%d' % (d['id'], n)
            n += 1
            out.append(v)
    # (iv) two fields of one type in an expanded struct
    v = copy.deepcopy(d)
    s = _fresh(v, 'S')
    ft = _fresh(v, 'T')
    v['types'][ft] = {'form': 'val'}
    v['types'][s] = {'form': 'val', 'fields': [['Fa', ft], ['Fb', ft]]}
    pid = _fresh(v, 'P')
    v['providers'].append({'id': pid, 'kind': 'fn', 'requires': [], 'provides': [[s]], 'async': False,
                           'fallible': False, 'wrap': 'async-bind', 'struct': ''})
    xid = 'X' + s[1:]
    v['providers'].append({'id': xid, 'kind': 'structexp', 'requires': [], 'provides': [], 'async': False,
                           'fallible': False, 'wrap': 'async-bind', 'struct': s})
    v['layout'] = list(v['layout']) + [pid, xid]
    v['planted'] = {'kind': 'dup', 'type': ft, 'via': 'twofields'}
    v['id'] = '%sd%d' % (d['id'], n)
    out.append(v)
    for v in out:
        v['injector'] = 'Init_' + v['id']
    return [v for v in out if ambiguous(v)]


def field_ret_variants(d):
    """the declaration asked for a type that only an expanded struct FIELD supplies (one variant per such field)"""
    out = []
    if not accepts(d):
        return out
    k = 0
    for p in d['providers']:
        if p['kind'] != 'structexp':
            continue
        for fn, ft in d['types'][p['struct']].get('fields', []):
            v = copy.deepcopy(d)
            v['ret'] = ft
            v['id'] = '%sq%d' % (d['id'], k)
            v['injector'] = 'Init_' + v['id']
            k += 1
            if accepts(v) and ft in suppliers(v):
                out.append(v)
    return out


def multi_ret_variants(d):
    """the declaration asked for the 2nd (3rd ...) result of a provider with several results"""
    out = []
    if not accepts(d):
        return out
    k = 0
    for p in d['providers']:
        if p['kind'] != 'fn' or len(p['provides']) < 2:
            continue
        for g in p['provides'][1:]:
            t = g[0]
            if (d['types'][t]['form'] == 'iface' and not d['types'][t].get('bare')) or 'fields' in d['types'][t]:
                continue
            v = copy.deepcopy(d)
            v['ret'] = t
            v['id'] = '%sm%d' % (d['id'], k)
            v['injector'] = 'Init_' + v['id']
            k += 1
            if accepts(v) and t in suppliers(v):
                out.append(v)
    return out


def ctxval_variants(d):
    """one provided pointer type becomes a context.Context VALUE returned by its provider (only where nobody asks for the
    injector's own context, which has the same Go type)"""
    out = []
    if not accepts(d) or any('ctx' in p.get('requires', []) for p in d['providers']) or d.get('pkg_ctx'):
        return out
    consumed = {r for p in d['providers'] for r in p.get('requires', [])}
    k = 0
    for p in d['providers']:
        if p['kind'] != 'fn' or len(p['provides']) != 1 or len(p['provides'][0]) != 1 or p.get('as_value_call'):
            continue
        t = p['provides'][0][0]
        ty = d['types'][t]
        if ty['form'] != 'ptr' or 'fields' in ty or ty.get('alias') or ty.get('is_error') or t not in consumed or t == d['ret']:
            continue
        if any(t in [f_[1] for f_ in x.get('fields', [])] for x in d['types'].values()):
            continue
        v = copy.deepcopy(d)
        v['types'][t] = {'form': 'ctxval'}
        v['id'] = '%sx%d' % (d['id'], k)
        v['injector'] = 'Init_' + v['id']
        k += 1
        out.append(v)
        if k >= 2:
            break
    return out


def plant_orphan(d):
    if not accepts(d):
        return []
    v = copy.deepcopy(d)
    s = _fresh(v, 'S')
    ft = _fresh(v, 'T')
    v['types'][ft] = {'form': 'val'}
    v['types'][s] = {'form': 'ptr', 'fields': [['Fa', ft]]}
    xid = 'X' + s[1:]
    v['providers'].append({'id': xid, 'kind': 'structexp', 'requires': [], 'provides': [], 'async': False,
                           'fallible': False, 'wrap': 'async-bind', 'struct': s})
    v['layout'] = list(v['layout']) + [xid]
    v['planted'] = {'kind': 'orphan', 'type': s}
    v['id'] = d['id'] + 'o0'
    v['injector'] = 'Init_' + v['id']
    return [v] if orphan_structs(v) else []


def cycle_types(d):
    """Types supplied by needed providers that lie on a cycle."""
    eff = {p['id']: p for p in eff_providers(d)}
    td = trans_deps(d)
    out = set()
    for p in needed(d):
        if p in td[p]:
            for g in eff[p]['provides']:
                out |= set(g)
    return out


# --------------------------------------------------------------------------------------------------------------------
# several declarations in one package / file (one generator invocation, one shared name pool)

def suffix_decl(d, sfx):
    """Rename every type and provider of d with a suffix so that several declarations can share a package."""
    d = copy.deepcopy(d)

    def rt(t):
        return t if t == 'ctx' else t + sfx

    def rp(p):
        return p + sfx
    d['types'] = {rt(k): dict(v, fields=[[f, rt(t)] for f, t in v['fields']]) if 'fields' in v else dict(v) for k, v in d['types'].items()}
    for p in d['providers']:
        p['id'] = rp(p['id'])
        p['requires'] = [rt(t) for t in p.get('requires', [])]
        p['provides'] = [[rt(t) for t in g] for g in p.get('provides', [])]
        if p.get('struct'):
            p['struct'] = rt(p['struct'])
    d['ret'] = rt(d['ret'])

    def rl(layout):
        out = []
        for x in layout:
            if isinstance(x, dict):
                out.append({'set': x['set'] + sfx, 'inline': x.get('inline', False), 'members': rl(x['members'])})
            else:
                out.append(rp(x))
        return out
    d['layout'] = rl(d['layout'])
    d['err_alias'] = 'Failure' + sfx
    return d


def make_group(gid, decls):
    """decls -> list of renamed declarations sharing package gid (file k.go)"""
    out = []
    for k, d in enumerate(decls):
        v = suffix_decl(d, 'abcdefgh'[k])
        v['id'] = '%s_%d' % (gid, k)
        v['injector'] = 'Init_%s_%d' % (gid, k)
        v['group'] = gid
        out.append(v)
    return out


def shared_group(rng, gid, d):
    """Two declarations in ONE file that use the SAME provider functions under different wrappers: the second one flips
    Async marks, changes the Async/Bind nesting, drops interface bindings (the interface then becomes an injector argument)
    and lists the providers flat in another order.  Whatever the generator learns about a provider while handling one
    declaration must not leak into the other."""
    a = suffix_decl(d, 'a')
    a['id'], a['injector'], a['group'] = '%s_0' % gid, 'Init_%s_0' % gid, gid
    b = copy.deepcopy(a)
    b['id'], b['injector'], b['shared'] = '%s_1' % gid, 'Init_%s_1' % gid, True
    fns = [p for p in b['providers'] if p['kind'] == 'fn']
    for p in fns:
        if rng.random() < 0.6:
            p['async'] = not p['async']
        p['wrap'] = rng.choice(['async-bind', 'bind-async'])
        if rng.random() < 0.5:
            p['provides'] = [[g[0]] for g in p['provides']]     # no Bind here
    if fns and all(p['async'] == q['async'] for p, q in zip(fns, [x for x in a['providers'] if x['kind'] == 'fn'])):
        fns[0]['async'] = not fns[0]['async']
    ids = [p['id'] for p in b['providers']]
    rng.shuffle(ids)
    b['layout'] = ids
    if rng.random() < 0.5:
        a, b = b, a
        a['shared'], b['shared'] = False, True
    return [a, b]


def multi_fan_decl(rng, did, k=4):
    """one Async provider with k results, each consumed by its own Async provider (k done-channels closed by one call),
    everything collected by a sink"""
    types = {}
    provs = []
    groups = []
    for i in range(1, k + 1):
        types['T%d' % i] = {'form': rng.choice(['ptr', 'val'])}
        groups.append(['T%d' % i])
    provs.append({'id': 'P0', 'kind': 'fn', 'requires': [], 'provides': groups, 'async': True, 'fallible': False,
                  'wrap': 'async-bind', 'struct': ''})
    for i in range(1, k + 1):
        types['U%d' % i] = {'form': rng.choice(['ptr', 'val'])}
        provs.append({'id': 'P%d' % i, 'kind': 'fn', 'requires': ['T%d' % i], 'provides': [['U%d' % i]], 'async': True,
                      'fallible': False, 'wrap': 'async-bind', 'struct': ''})
    types['R'] = {'form': 'ptr'}
    provs.append({'id': 'P%d' % (k + 1), 'kind': 'fn', 'requires': ['U%d' % i for i in range(1, k + 1)], 'provides': [['R']],
                  'async': False, 'fallible': False, 'wrap': 'async-bind', 'struct': ''})
    ids = [p['id'] for p in provs]
    rng.shuffle(ids)
    return {'id': did, 'injector': 'Init_' + did, 'ret': 'R', 'types': types, 'providers': provs, 'layout': ids, 'planted': None}


def tree_decl(rng, did, n=6, p_async=0.85):
    """Out-tree: every provider depends on at most one earlier provider (fan-out below fan-out), mostly Async; a final
    provider consumes every leaf and some inner nodes."""
    types = {}
    provs = []
    children = {}
    for i in range(n):
        types['T%d' % i] = {'form': rng.choice(['ptr', 'val'])}
        req = []
        if i > 0 and rng.random() < 0.85:
            par = rng.randrange(i)
            req = ['T%d' % par]
            children.setdefault(par, []).append(i)
        provs.append({'id': 'P%d' % i, 'kind': 'fn', 'requires': req, 'provides': [['T%d' % i]], 'async': rng.random() < p_async,
                      'fallible': False, 'wrap': 'async-bind', 'struct': ''})
    leaves = [i for i in range(n) if i not in children]
    inner = [i for i in range(n) if i in children]
    req = ['T%d' % i for i in leaves] + ['T%d' % i for i in inner if rng.random() < 0.5]
    rng.shuffle(req)
    types['T%d' % n] = {'form': 'ptr'}
    provs.append({'id': 'P%d' % n, 'kind': 'fn', 'requires': req[:7], 'provides': [['T%d' % n]], 'async': rng.random() < 0.3,
                  'fallible': False, 'wrap': 'async-bind', 'struct': ''})
    ids = [p['id'] for p in provs]
    rng.shuffle(ids)
    return {'id': did, 'injector': 'Init_' + did, 'ret': 'T%d' % n, 'types': types, 'providers': provs, 'layout': ids, 'planted': None}


def sources_decl(rng, did, p_fallible=0.5, nsync=None):
    """Several input-free sources (2-4 Async, 1-2 synchronous), each fallible or not; a few middle providers; a sink that
    consumes everything left over.  Declaration order shuffled."""
    types = {}
    provs = []
    produced = []
    k = [0]

    def add(req, is_async, fallible):
        i = k[0]
        k[0] += 1
        types['T%d' % i] = {'form': rng.choice(['ptr', 'val'])}
        provs.append({'id': 'P%d' % i, 'kind': 'fn', 'requires': req, 'provides': [['T%d' % i]], 'async': is_async,
                      'fallible': fallible, 'wrap': 'async-bind', 'struct': ''})
        produced.append('T%d' % i)
        return 'T%d' % i
    srcs = []
    for _ in range(rng.randint(2, 4)):
        srcs.append(add([], True, rng.random() < p_fallible))
    for _ in range(rng.randint(1, 2) if nsync is None else nsync):
        srcs.append(add([], False, rng.random() < p_fallible))
    for _ in range(rng.randint(0, 3) if nsync is None else rng.randint(2, 4)):
        add(rng.sample(produced, rng.randint(1, min(2, len(produced)))), rng.random() < (0.5 if nsync is None else 0.35), rng.random() < p_fallible * 0.6)
    consumed = {r for p in provs for r in p['requires']}
    loose = [t for t in produced if t not in consumed]
    rng.shuffle(loose)
    sink = add(loose[:7], rng.random() < 0.2 and nsync is None, rng.random() < p_fallible * 0.4)
    ids = [p['id'] for p in provs]
    rng.shuffle(ids)
    return {'id': did, 'injector': 'Init_' + did, 'ret': sink, 'types': types, 'providers': provs, 'layout': ids, 'planted': None}


def wide_decl(rng, did, width=10, p_fallible=0.0, sync_root=True, p_root=0.85, njoin=0, nleaf=0, ordered=False):
    """Wide fan-out: one root (synchronous or Async) consumed by `width` Async providers (a few of them also chained in
    pairs), then `njoin` Async providers joining two of them and `nleaf` synchronous providers hanging off one of them, all
    feeding one sink — more goroutine chains, ready nodes and pools than any small declaration has (boundary sizes of the
    scheduler: queue lengths, chain counts, pool counts, channel counts, parameter counts)."""
    types = {'T0': {'form': 'ptr'}}
    provs = [{'id': 'P0', 'kind': 'fn', 'requires': [], 'provides': [['T0']], 'async': not sync_root, 'fallible': rng.random() < p_fallible,
              'wrap': 'async-bind', 'struct': ''}]
    for i in range(1, width + 1):
        types['T%d' % i] = {'form': rng.choice(['ptr', 'val'])}
        req = ['T0'] if rng.random() < p_root else []
        if i > 2 and rng.random() < 0.2:
            req.append('T%d' % rng.randrange(1, i))
        provs.append({'id': 'P%d' % i, 'kind': 'fn', 'requires': req, 'provides': [['T%d' % i]], 'async': rng.random() < 0.92,
                      'fallible': rng.random() < p_fallible, 'wrap': 'async-bind', 'struct': ''})
    n = width + 1
    for j in range(njoin + nleaf):
        types['T%d' % n] = {'form': rng.choice(['ptr', 'val'])}
        if j < njoin:
            a = (j + 1) if ordered else rng.randrange(1, width)
            req = ['T%d' % a, 'T%d' % (a + 1)]
        else:
            req = ['T%d' % ((njoin + 1) if ordered else rng.randrange(1, width + 1))]
        provs.append({'id': 'P%d' % n, 'kind': 'fn', 'requires': req, 'provides': [['T%d' % n]], 'async': j < njoin,
                      'fallible': rng.random() < p_fallible, 'wrap': 'async-bind', 'struct': ''})
        n += 1
    types['T%d' % n] = {'form': 'ptr'}
    req = ['T%d' % i for i in range(1, n)]
    rng.shuffle(req)
    if ordered:
        req = sorted(req, key=lambda t: int(t[1:]))
    provs.append({'id': 'P%d' % n, 'kind': 'fn', 'requires': req, 'provides': [['T%d' % n]], 'async': (rng.random() < 0.3) and not ordered,
                  'fallible': rng.random() < p_fallible, 'wrap': 'async-bind', 'struct': ''})
    ids = [p['id'] for p in provs]
    if not ordered:
        rng.shuffle(ids)
    return {'id': did, 'injector': 'Init_' + did, 'ret': 'T%d' % n, 'types': types, 'providers': provs, 'layout': ids, 'planted': None}
