------------------------------------------------ MODULE Decl ------------------------------------------------
(* Abstract kessoku.Inject declaration and its meaning.                                                      *)
(*                                                                                                           *)
(* A declaration D is a record                                                                               *)
(*   [id, injector, ret, providers]                                                                          *)
(* where providers is a sequence of records                                                                  *)
(*   [id, kind \in {"fn","value","structexp"}, requires : Seq(Type), provides : Seq(Seq(Type)),            *)
(*    async, fallible, struct, fields : Seq(<<fieldName, Type>>)]                                            *)
(* Types are opaque strings; "ctx" is context.Context.  provides[k] is the k-th result group: the result     *)
(* type followed by the interfaces it is bound to (kessoku.Bind).  Set nesting, declaration order and the    *)
(* order of Async/Bind wrappers are deliberately absent: by C02 they cannot matter.                          *)
(*                                                                                                           *)
(* This module is the oracle for C02 (Eval, Needed), C09 (Accepts), C10 (ExpectedSig) and supplies TransDeps  *)
(* to the run-time requirement automaton (InjectorReq).                                                      *)
EXTENDS Integers, Sequences, FiniteSets, TLC

Range(s) == {s[i] : i \in DOMAIN s}

NatToStr(n) == ToString(n)

(* ---- effective providers: a structexp provider stands for one field-read provider per exported field ---- *)
Norm(p) == [id |-> p.id, kind |-> p.kind, requires |-> p.requires, provides |-> p.provides,
            async |-> p.async, fallible |-> p.fallible, struct |-> p.struct, field |-> ""]

FieldProv(x, f) == [id |-> x.id \o "." \o f[1], kind |-> "field", requires |-> <<x.struct>>,
                    provides |-> << <<f[2]>> >>, async |-> FALSE, fallible |-> FALSE, struct |-> x.struct,
                    field |-> f[1]]

Eff(D) == {Norm(p) : p \in {q \in Range(D.providers) : q.kind # "structexp"}}
          \cup UNION {{FieldProv(x, x.fields[i]) : i \in DOMAIN x.fields}
                      : x \in {q \in Range(D.providers) : q.kind = "structexp"}}

ProvTypes(p) == UNION {Range(p.provides[k]) : k \in DOMAIN p.provides}

AllTypes(D) == {D.ret} \cup UNION {ProvTypes(p) \cup Range(p.requires) : p \in Eff(D)}

(* suppliers of a type: pairs <<provider id, result index>> *)
SuppliersOf(D, t) ==
  UNION {{<<p.id, k>> : k \in {j \in DOMAIN p.provides : t \in Range(p.provides[j])}} : p \in Eff(D)}

SupplierIds(D, t) == {s[1] : s \in SuppliersOf(D, t)}
Supplied(D, t) == SuppliersOf(D, t) # {}

Ambiguous(D) == {t \in AllTypes(D) : Cardinality(SupplierIds(D, t)) > 1}

(* a struct expansion needs a source among the ordinary providers *)
BaseSupplied(D, t) == \E p \in Range(D.providers) : p.kind \in {"fn", "value"} /\ t \in ProvTypes(p)
OrphanStructs(D) == {x.struct : x \in {q \in Range(D.providers) : q.kind = "structexp" /\ ~BaseSupplied(D, q.struct)}}

Prov(D, id) == CHOOSE p \in Eff(D) : p.id = id
Sup(D, t) == CHOOSE s \in SuppliersOf(D, t) : \A s2 \in SuppliersOf(D, t) : s[2] <= s2[2]

DepIds(D, id) == {Sup(D, r)[1] : r \in {q \in Range(Prov(D, id).requires) : Supplied(D, q)}}

RECURSIVE Closure(_, _)
Closure(D, S) == LET S2 == S \cup UNION {DepIds(D, id) : id \in S}
                 IN IF S2 = S THEN S ELSE Closure(D, S2)

(* strict transitive dependencies *)
TransDeps(D, id) == Closure(D, DepIds(D, id))

Needed(D) == IF Supplied(D, D.ret) THEN Closure(D, {Sup(D, D.ret)[1]}) ELSE {}

ReachCyclic(D) == \E id \in Needed(D) : id \in TransDeps(D, id)

Accepts(D) == Ambiguous(D) = {} /\ OrphanStructs(D) = {} /\ ~ReachCyclic(D)

(* injector parameters: unsupplied types required by a needed provider, or the requested type itself *)
Args(D) == IF ~Supplied(D, D.ret) THEN {D.ret}
           ELSE {r \in UNION {Range(Prov(D, id).requires) : id \in Needed(D)} : ~Supplied(D, r)}

NeededAsync(D) == \E id \in Needed(D) : Prov(D, id).async
NeededFallible(D) == \E id \in Needed(D) : Prov(D, id).fallible

ExpectedSig(D) == [name |-> D.injector,
                   params |-> Args(D) \cup (IF NeededAsync(D) THEN {"ctx"} ELSE {}),
                   ctxfirst |-> NeededAsync(D),
                   haserr |-> NeededFallible(D)]

(* needed providers whose entry can be observed, that are Async and take no input at all (C05) *)
ZeroInAsync(D) == {id \in Needed(D) : Prov(D, id).kind = "fn" /\ Prov(D, id).async /\ Prov(D, id).requires = <<>>}

(* ---- symbolic evaluation ---- *)
RECURSIVE Join(_)
Join(s) == IF s = <<>> THEN "" ELSE IF Len(s) = 1 THEN s[1] ELSE s[1] \o "," \o Join(Tail(s))

TermOf(pid, k, args) == pid \o "(" \o Join(args) \o ")#" \o ToString(k - 1)
FldTerm(st, f) == "fld(" \o st \o "," \o f \o ")"
ArgTerm(t) == IF t = "ctx" THEN "ctx" ELSE "arg:" \o t

RECURSIVE Eval(_, _)
Eval(D, t) ==
  IF ~Supplied(D, t) THEN ArgTerm(t)
  ELSE LET s == Sup(D, t)
           p == Prov(D, s[1])
       IN IF p.kind = "field" THEN FldTerm(Eval(D, p.struct), p.field)
          ELSE TermOf(p.id, s[2], [i \in DOMAIN p.requires |-> Eval(D, p.requires[i])])

=============================================================================================================
