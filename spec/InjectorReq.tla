--------------------------------------------- MODULE InjectorReq ---------------------------------------------
(* Black-box requirement automaton of one call of a generated injector (C01-C03, C05-C08).                    *)
(*                                                                                                            *)
(* It consumes executions recorded from the REAL compiled injector by the gate scheduler (harness/rt): one    *)
(* ndjson line per event, several executions (and declarations) per file.  Events:                            *)
(*   Call(decl, pre, mode, haserr)   the caller invokes the injector (pre: its context is already cancelled)  *)
(*   Enter(p, n, args)               provider p is entered for the n-th time with symbolic argument terms     *)
(*   Exit(p, n, ok)                  provider p returns (ok) or returns its error (~ok)                       *)
(*   Cancel                          the caller cancels its context                                           *)
(*   Return(term, cls, site, haserr) the injector returns; cls classifies its error (nil, prov:<p>, ctx:...)  *)
(*   Panic(msg) / Hang(parked)       the injector panicked / is blocked forever with no provider running      *)
(*   Quiesced(gated, parked, point)  projected state at a quiescent point: providers inside their function,   *)
(*                                   goroutines parked in generated code                                      *)
(*   Final(parked)                   after the return and after every remaining provider returned             *)
(*   GRet(site), End(path,...)       bookkeeping                                                              *)
(* The automaton never blocks on a bad event: it consumes the whole file and accumulates the violated         *)
(* requirement clauses in viol, so that one pass classifies every execution.  Only what the properties        *)
(* demand is stated here; no mechanism of the generator is mentioned.                                         *)
EXTENDS Decl, Json

Decls == JsonDeserialize("decls.json")
Trace == ndJsonDeserialize("trace.ndjson")

VARIABLES l,        \* next line of Trace
          st,       \* state of the execution being consumed
          viol,     \* violated clauses so far: set of [tr, decl, clause, p, detail]
          overlap,  \* declarations for which a state with all input-free Async providers running was observed
          wantov,   \* declarations that have at least two needed input-free Async providers
          done

vars == <<l, st, viol, overlap, wantov, done>>

DeclIdx(id) == CHOOSE i \in DOMAIN Decls : Decls[i].id = id

NoSup == <<"", 0>>

NewSt(ev) ==
  LET i == DeclIdx(ev.decl)
      D == Decls[i]
      E == Eff(D)
      ids == {p.id : p \in E}
      ok == Accepts(D)
  IN [tr |-> ev.tr, decl |-> D.id, ok |-> ok, ids |-> ids,
      prov |-> [id \in ids |-> CHOOSE p \in E : p.id = id],
      sup |-> [t \in AllTypes(D) |-> IF Supplied(D, t) THEN Sup(D, t) ELSE NoSup],
      needed |-> IF ok THEN Needed(D) ELSE {},
      evalret |-> IF ok THEN Eval(D, D.ret) ELSE "",
      tdeps |-> [id \in ids |-> IF ok THEN TransDeps(D, id) ELSE {}],
      zia |-> IF ok THEN ZeroInAsync(D) ELSE {},
      cancelled |-> ev.pre, failed |-> {}, okset |-> {}, exited |-> {},
      entered |-> [id \in ids |-> 0], eargs |-> [id \in ids |-> <<>>],
      returned |-> FALSE, haserr |-> ev.haserr, mode |-> ev.mode]

Idle == [tr |-> -1]

V(s, clause, p, detail) == [tr |-> s.tr, decl |-> s.decl, clause |-> clause, p |-> p, detail |-> detail]

(* the term a consumer must receive for type t, given what has been observed so far;                          *)
(* "?" = its producer has not returned yet, "!" = its producer returned an error                              *)
RECURSIVE ObsTerm(_, _)
ObsTerm(s, t) ==
  IF t \notin DOMAIN s.sup \/ s.sup[t] = NoSup THEN ArgTerm(t)
  ELSE LET sp == s.sup[t]
           p == s.prov[sp[1]]
       IN CASE p.kind = "value" -> TermOf(p.id, sp[2], <<>>)
            [] p.kind = "field" -> LET b == ObsTerm(s, p.struct)
                                   IN IF b \in {"?", "!"} THEN b ELSE FldTerm(b, p.field)
            [] OTHER -> IF p.id \in s.okset THEN TermOf(p.id, sp[2], s.eargs[p.id])
                        ELSE IF p.id \in s.failed THEN "!" ELSE "?"

FaultFree(s) == s.failed = {} /\ ~s.cancelled

EnterViol(s, ev) ==
  IF ev.p \notin s.ids THEN {V(s, "C02.unneeded", ev.p, "not a provider of the declaration")}
  ELSE
   LET P == s.prov[ev.p]
   IN (IF ev.p \notin s.needed THEN {V(s, "C02.unneeded", ev.p, "provider is not needed for the requested type")} ELSE {})
      \cup (IF ev.n > 1 THEN {V(s, "C02.once", ev.p, "entered more than once")} ELSE {})
      \cup (IF Len(ev.args) # Len(P.requires) THEN {V(s, "C01.value", ev.p, "arity")}
            ELSE UNION {LET o == ObsTerm(s, P.requires[i])
                        IN IF o = "?" THEN {V(s, "C01.order", ev.p, P.requires[i])}
                           ELSE IF o = "!" THEN {}
                           ELSE IF ev.args[i] # o THEN {V(s, "C01.value", ev.p, P.requires[i])} ELSE {}
                        : i \in DOMAIN P.requires})
      \cup (IF s.tdeps[ev.p] \cap s.failed # {} THEN {V(s, "C06.dependent", ev.p, "")} ELSE {})
      \cup (IF s.returned /\ FaultFree(s) THEN {V(s, "C03.join", ev.p, "provider entered after the injector returned")} ELSE {})

ReturnViol(s, ev) ==
  CASE FaultFree(s) ->
         (IF ev.cls # "nil" THEN {V(s, "C02.value", "", "error although no provider failed and nothing was cancelled")}
          ELSE IF ev.term # s.evalret THEN {V(s, "C02.value", "", ev.term)} ELSE {})
         \cup {V(s, "C02.once", id, "needed provider not entered exactly once") :
                 id \in {i \in s.needed : s.prov[i].kind = "fn" /\ s.entered[i] # 1}}
    [] s.failed # {} ->
         (IF ev.cls = "nil" THEN {V(s, "C06.nil", "", "")} ELSE {})
         \cup (IF ~s.cancelled /\ ev.cls # "nil" /\ ev.cls \notin {"prov:" \o q : q \in s.failed}
               THEN {V(s, "C06.subst", "", ev.cls)} ELSE {})
    [] OTHER ->
         IF ev.cls = "nil" /\ ev.term # s.evalret THEN {V(s, "C07.partial", "", ev.term)} ELSE {}

StuckClause(s, kind) ==
  IF FaultFree(s) THEN "C03." \o (IF kind = "hang" THEN "deadlock" ELSE "panic")
  ELSE IF s.cancelled THEN "C07." \o kind ELSE "C06." \o kind

Ev == Trace[l]
More == l <= Len(Trace)
Adv == l' = l + 1

Call ==
  /\ More /\ Ev.ev = "Call" /\ Adv
  /\ st' = NewSt(Ev)
  /\ wantov' = IF Cardinality(st'.zia) >= 2 THEN wantov \cup {st'.decl} ELSE wantov
  /\ UNCHANGED <<viol, overlap, done>>

Enter ==
  /\ More /\ Ev.ev = "Enter" /\ Adv
  /\ viol' = viol \cup EnterViol(st, Ev)
  /\ st' = IF Ev.p \in st.ids
           THEN [st EXCEPT !.entered[Ev.p] = @ + 1, !.eargs[Ev.p] = Ev.args]
           ELSE st
  /\ UNCHANGED <<overlap, wantov, done>>

Exit ==
  /\ More /\ Ev.ev = "Exit" /\ Adv
  /\ st' = IF Ev.p \in st.ids
           THEN IF Ev.ok THEN [st EXCEPT !.okset = @ \cup {Ev.p}, !.exited = @ \cup {Ev.p}]
                ELSE [st EXCEPT !.failed = @ \cup {Ev.p}, !.exited = @ \cup {Ev.p}]
           ELSE st
  /\ UNCHANGED <<viol, overlap, wantov, done>>

Cancel ==
  /\ More /\ Ev.ev = "Cancel" /\ Adv
  /\ st' = [st EXCEPT !.cancelled = TRUE]
  /\ UNCHANGED <<viol, overlap, wantov, done>>

Return ==
  /\ More /\ Ev.ev = "Return" /\ Adv
  /\ viol' = viol \cup ReturnViol(st, Ev)
  /\ st' = [st EXCEPT !.returned = TRUE]
  /\ UNCHANGED <<overlap, wantov, done>>

Panic ==
  /\ More /\ Ev.ev = "Panic" /\ Adv
  /\ viol' = viol \cup {V(st, StuckClause(st, "panic"), "", Ev.msg)}
  /\ st' = [st EXCEPT !.returned = TRUE]
  /\ UNCHANGED <<overlap, wantov, done>>

Hang ==
  /\ More /\ Ev.ev = "Hang" /\ Adv
  /\ viol' = viol \cup {V(st, StuckClause(st, "hang"), "", "")}
  /\ UNCHANGED <<st, overlap, wantov, done>>

Quiesced ==
  /\ More /\ Ev.ev = "Quiesced" /\ Adv
  /\ overlap' = IF Cardinality(st.zia) >= 2 /\ st.zia \subseteq Range(Ev.gated)
                THEN overlap \cup {st.decl} ELSE overlap
  /\ viol' = IF Ev.point = "after-return" /\ FaultFree(st) /\ (Ev.gated # <<>> \/ Ev.parked # <<>>)
             THEN viol \cup {V(st, "C03.join", "", "goroutine alive when the injector returned")} ELSE viol
  /\ UNCHANGED <<st, wantov, done>>

Final ==
  /\ More /\ Ev.ev = "Final" /\ Adv
  /\ viol' = IF Ev.parked # <<>> THEN viol \cup {V(st, "C08.stuck", "", "")} ELSE viol
  /\ UNCHANGED <<st, overlap, wantov, done>>

Skip ==
  /\ More /\ Ev.ev \in {"GRet", "End"} /\ Adv
  /\ UNCHANGED <<st, viol, overlap, wantov, done>>

(* end of file: declarations with >= 2 input-free Async providers need a witness of their overlap (C05) *)
Finish ==
  /\ ~More /\ ~done
  /\ done' = TRUE
  /\ viol' = viol \cup {[tr |-> -1, decl |-> d, clause |-> "C05.overlap", p |-> "", detail |-> ""] : d \in wantov \ overlap}
  /\ JsonSerialize("viol.json", [viol |-> viol', overlap |-> overlap, wantov |-> wantov, lines |-> l - 1])
  /\ UNCHANGED <<l, st, overlap, wantov>>

Init == l = 1 /\ st = Idle /\ viol = {} /\ overlap = {} /\ wantov = {} /\ done = FALSE

Next == Call \/ Enter \/ Exit \/ Cancel \/ Return \/ Panic \/ Hang \/ Quiesced \/ Final \/ Skip \/ Finish

Spec == Init /\ [][Next]_vars

(* the whole file was consumed: one state per line, plus the initial state and the Finish step *)
TraceAccepted == TLCGet("stats").diameter = Len(Trace) + 2
=============================================================================================================
