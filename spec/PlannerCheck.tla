--------------------------------------------- MODULE PlannerCheck ---------------------------------------------
(* Conformance of Planner.tla with the real generator: for every declaration of a batch (inside the planner's    *)
(* domain) the plan computed by the specification must equal the plan read out of the generated file by          *)
(* harness/cmd/extract (views.json).  Differences are listed, not judged.                                       *)
EXTENDS Planner, Json

Decls == JsonDeserialize("decls.json")
Views == JsonDeserialize("views.json")   \* same order: [main |-> <<<<p, <<waits>>>>...>>, goroutines |-> <<...>>]

ToView(seq) == [i \in DOMAIN seq |-> <<seq[i][1], {seq[i][2][k] : k \in DOMAIN seq[i][2]}>>]
RealView(i) == [main |-> ToView(Views[i].main), goroutines |-> [k \in DOMAIN Views[i].goroutines |-> ToView(Views[i].goroutines[k])]]

Diff == {i \in DOMAIN Decls : PlanView(Decls[i]) # RealView(i)}

ASSUME PrintT(<<"PlannerCheck", Len(Decls), "differences", {Decls[i].id : i \in Diff}>>)
ASSUME JsonSerialize("planner_out.json", [diff |-> {Decls[i].id : i \in Diff}, n |-> Len(Decls),
                                          sample |-> IF Diff = {} THEN <<>> ELSE LET i == CHOOSE j \in Diff : TRUE IN <<Decls[i].id, PlanView(Decls[i]), RealView(i)>>])

VARIABLE x
Init == x = 0
Next == x' = x /\ FALSE
Spec == Init /\ [][Next]_x
=============================================================================================================
