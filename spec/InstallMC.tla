---- MODULE InstallMC ----
EXTENDS Install
Files2 == {"SKILL.md", "references/A.md"}
Files3 == {"SKILL.md", "references/A.md", "references/B.md"}
PriorsMC == {[content |-> "absent", mode |-> ""], [content |-> "old", mode |-> "0644"], [content |-> "old", mode |-> "0600"],
             [content |-> "new", mode |-> "0644"]}
====
