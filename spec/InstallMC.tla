---- MODULE InstallMC ----
EXTENDS Install
Files2 == <<"SKILL.md", "references/A.md">>
Files4 == <<"SKILL.md", "references/A.md", "references/B.md", "references/C.md">>
====
