---------------------------------------------- MODULE DeclCheck ----------------------------------------------
(* Cross-check of the declaration semantics: Decl.tla (this specification's oracle) against the independent   *)
(* reference interpreter in lib/declspace.py, on every declaration of a batch.  A disagreement means one of   *)
(* the two references is wrong: the check exits 2, it is never a verdict about kessoku.                       *)
EXTENDS Decl, Json

Decls == JsonDeserialize("decls.json")
Expect == JsonDeserialize("expect.json")

SetOfSeq(s) == {s[i] : i \in DOMAIN s}

Agree(i) ==
  LET D == Decls[i]
      E == Expect[i]
  IN /\ Accepts(D) = E.accepts
     /\ Ambiguous(D) = SetOfSeq(E.ambiguous)
     /\ OrphanStructs(D) = SetOfSeq(E.orphans)
     /\ (Ambiguous(D) = {} => ReachCyclic(D) = E.cyclic)
     /\ (E.accepts =>
           /\ Needed(D) = SetOfSeq(E.needed)
           /\ Args(D) = SetOfSeq(E.args)
           /\ ExpectedSig(D).params = SetOfSeq(E.sigparams)
           /\ ExpectedSig(D).ctxfirst = E.ctxfirst
           /\ ExpectedSig(D).haserr = E.haserr
           /\ Eval(D, D.ret) = E.eval
           /\ \A id \in Needed(D) : TransDeps(D, id) = SetOfSeq(E.transdeps[id]))

Disagreements == {i \in DOMAIN Decls : ~Agree(i)}

ASSUME PrintT(<<"DeclCheck", Len(Decls), "disagreements", {Decls[i].id : i \in Disagreements}>>)
ASSUME Disagreements = {}

VARIABLE x
Init == x = 0
Next == x' = x /\ FALSE
Spec == Init /\ [][Next]_x
=============================================================================================================
