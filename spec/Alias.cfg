SPECIFICATION Spec
CONSTANTS
  Requests <- ReqSet
  MaxLen = 5
INVARIANT Bijective
INVARIANT Dump
POSTCONDITION Post
CHECK_DEADLOCK FALSE
