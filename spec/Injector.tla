----------------------------------------------- MODULE Injector -----------------------------------------------
(* White-box operational semantics of generated injectors.                                                     *)
(*                                                                                                             *)
(* A PROGRAM is what harness/cmd/extract reads out of a generated *_band.go: threads (thread 1 = the           *)
(* injector's own goroutine, the others = eg.Go bodies) of instructions                                        *)
(*    wait(ch, ctx-aware?, what the ctx branch returns)    call(p, args, rets, error check)                    *)
(*    field(src, F, dst)   close(chs)   egwait(checked?)   ret(v)   gend (return nil of a goroutine)            *)
(* The semantics below is that of the Go primitives the generator uses: goroutine start through errgroup.Go,  *)
(* close / receive on chan struct{}, select between a channel and ctx.Done() (both ready = either branch),     *)
(* errgroup's first-error rule and its cancellation of the derived context, eg.Wait (join, cancel, first       *)
(* error), the caller cancelling its context at any instant.  A provider call is two steps, Enter and Exit     *)
(* (ok or, for fallible providers, fail): every provider latency is an interleaving.  Happens-before is         *)
(* explicit: knows[t] is the set of variables whose write is ordered before thread t's next step (published   *)
(* by close/receive, goroutine start, goroutine end + Wait); a read of a variable outside knows[t] is a data    *)
(* race (C01).  Every behaviour is finite (each instruction executes at most once), so termination properties   *)
(* are predicates of terminal states.                                                                          *)
(*                                                                                                             *)
(* TLC explores, for every program of a batch and every mode (provider failures on/off, caller cancellation    *)
(* on/off), ALL interleavings, and collects every violated requirement clause with the source lines that       *)
(* explain it (return site, parked statements) into one set (register 1), written out by the postcondition.    *)
EXTENDS Decl, Json

Progs == JsonDeserialize("progs.json")
Decls == JsonDeserialize("decls.json")
Modes == {{}, {"fail"}, {"cancel"}, {"fail", "cancel"}}   \* a configuration may override this (fault-free only: {{}})

VARIABLES pi, mode, exp,
          pc, ts, spawned,          \* control: program counter and status of each thread, goroutines started so far
          closed, chK,              \* channels: closed ones, happens-before payload of each close
          panicked,
          pstat, ncall, cargs,      \* providers: idle/run/ok/fail, number of entries, argument terms of the running call
          written, val, knows,      \* variables: assigned ones, their symbolic value, per-thread happens-before knowledge
          endK, egErr, ictx, cctx,  \* errgroup: knowledge published by finished goroutines, first error, derived / caller ctx cancelled
          mainRet,                  \* how the injector returned
          flag                      \* requirement clauses violated by the last step

vars == <<pi, mode, exp, pc, ts, spawned, closed, chK, panicked, pstat, ncall, cargs, written, val, knows, endK,
          egErr, ictx, cctx, mainRet, flag>>

P == Progs[pi]
NT == Len(P.threads)
Thr(t) == P.threads[t]
I(t) == Thr(t)[pc[t]]
ParamNames == {P.ptype[i][1] : i \in DOMAIN P.ptype}
VarNames == Range(P.vars) \cup ParamNames \cup {"_"}
ParamType(v) == LET i == CHOOSE j \in DOMAIN P.ptype : P.ptype[j][1] = v IN P.ptype[i][2]
HasCtx == \E i \in DOMAIN P.ptype : P.ptype[i][2] = "ctx"

CtxDone == cctx \/ ictx
CtxTag == IF cctx THEN "ctx:caller" ELSE "ctx:internal"
CtxErrNow == IF CtxDone THEN CtxTag ELSE ""

Failed == {p \in DOMAIN pstat : pstat[p] = "fail"}
FaultFree == Failed = {} /\ ~cctx
StuckClause(kind) == IF FaultFree THEN (IF kind = "hang" THEN "C03.deadlock" ELSE "C03.panic")
                     ELSE IF cctx THEN "C07." \o kind ELSE "C06." \o kind

F(clause, line, detail) == [clause |-> clause, rline |-> line, parked |-> {}, detail |-> detail]

NoRet == [done |-> FALSE, val |-> "", err |-> "", rline |-> 0]

MkExp(D) ==
  LET E == Eff(D)
      ids == {p.id : p \in E}
      pr(id) == CHOOSE p \in E : p.id = id
  IN [args |-> [id \in ids |-> [i \in DOMAIN pr(id).requires |-> Eval(D, pr(id).requires[i])]],
      nres |-> [id \in ids |-> Len(pr(id).provides)],
      fall |-> [id \in ids |-> pr(id).fallible],
      kind |-> [id \in ids |-> pr(id).kind],
      tdeps |-> [id \in ids |-> TransDeps(D, id)],
      needed |-> Needed(D), zia |-> ZeroInAsync(D), ret |-> Eval(D, D.ret),
      fnneeded |-> {id \in Needed(D) : pr(id).kind = "fn"}]

Init ==
  /\ pi \in DOMAIN Progs
  /\ mode \in Modes
  /\ exp = MkExp(Decls[Progs[pi].declidx])
  /\ pc = [t \in 1..NT |-> 1]
  /\ ts = [t \in 1..NT |-> IF t = 1 THEN "ready" ELSE "unspawned"]
  /\ spawned = 0
  /\ closed = {} /\ chK = [c \in Range(P.chans) |-> {}]
  /\ panicked = FALSE
  /\ pstat = [p \in DOMAIN exp.nres |-> "idle"] /\ ncall = [p \in DOMAIN exp.nres |-> 0]
  /\ cargs = [t \in 1..NT |-> <<>>]
  /\ written = ParamNames
  /\ val = [v \in VarNames |-> IF v \in ParamNames THEN ArgTerm(ParamType(v)) ELSE P.vzero[v]]
  /\ knows = [t \in 1..NT |-> ParamNames]
  /\ endK = {} /\ egErr = "" /\ ictx = FALSE /\ cctx = FALSE
  /\ mainRet = NoRet
  /\ flag = {}

(* ---- how a thread leaves through a return statement ---- *)
ZeroIsh == {"?", "zero", "nil"}

ErrOf(rerr, inhand) == CASE rerr = "err" -> inhand
                         [] rerr = "ctx" -> CtxErrNow
                         [] rerr = "nil" -> ""
                         [] OTHER -> "other"

MainReturnFlags(v, err, line, fs) ==
  CASE fs = {} /\ ~cctx ->
         (IF err # "" THEN {F("C02.value", line, "error although nothing failed")}
          ELSE IF v # exp.ret THEN {F("C02.value", line, v)} ELSE {})
         \cup (IF \E t \in 2..NT : ts[t] # "done" THEN {F("C03.join", line, "")} ELSE {})
         \cup {F("C02.once", line, id) : id \in {i \in exp.fnneeded : ncall[i] # 1}}
    [] fs # {} ->
         (IF err = "" THEN {F("C06.nil", line, "")} ELSE {})
         \cup (IF ~cctx /\ err # "" /\ err \notin {"prov:" \o q : q \in fs} THEN {F("C06.subst", line, err)} ELSE {})
    [] OTHER -> IF err = "" /\ v # exp.ret THEN {F("C07.partial", line, v)} ELSE {}

\* thread t returns (t = 1: the injector returns v, err; otherwise the goroutine hands err to the errgroup)
Leave(t, v, err, line, fl, fs) ==
  IF t = 1
  THEN /\ mainRet' = [done |-> TRUE, val |-> v, err |-> err, rline |-> line]
       /\ ts' = [ts EXCEPT ![1] = "done"]
       /\ flag' = fl \cup MainReturnFlags(v, err, line, fs)
       /\ UNCHANGED <<endK, egErr, ictx>>
  ELSE /\ ts' = [ts EXCEPT ![t] = "done"]
       /\ endK' = endK \cup knows[t]
       /\ egErr' = IF err # "" /\ egErr = "" THEN err ELSE egErr
       /\ ictx' = (ictx \/ (err # "" /\ egErr = "" /\ P.egform = "withctx"))
       /\ flag' = fl
       /\ UNCHANGED mainRet

Live == ~panicked

(* ---- actions ---- *)
Go ==
  /\ Live /\ ts[1] = "ready" /\ pc[1] = 1 /\ spawned < NT - 1
  /\ spawned' = spawned + 1
  /\ ts' = [ts EXCEPT ![spawned + 2] = "ready"]
  /\ knows' = [knows EXCEPT ![spawned + 2] = knows[1]]
  /\ flag' = {}
  /\ UNCHANGED <<pi, mode, exp, pc, closed, chK, panicked, pstat, ncall, cargs, written, val, endK, egErr, ictx, cctx, mainRet>>

Runnable(t) == Live /\ ts[t] = "ready" /\ pc[t] <= Len(Thr(t)) /\ (t = 1 => spawned = NT - 1)

WaitRecv(t) ==
  /\ Runnable(t) /\ I(t).op = "wait" /\ I(t).chans[1] \in closed
  /\ pc' = [pc EXCEPT ![t] = @ + 1]
  /\ knows' = [knows EXCEPT ![t] = @ \cup chK[I(t).chans[1]]]
  /\ flag' = {}
  /\ UNCHANGED <<pi, mode, exp, ts, spawned, closed, chK, panicked, pstat, ncall, cargs, written, val, endK, egErr, ictx, cctx, mainRet>>

WaitCtx(t) ==
  /\ Runnable(t) /\ I(t).op = "wait" /\ I(t).ctx /\ CtxDone
  /\ Leave(t, "zero", ErrOf(I(t).rerr, ""), I(t).rline, {}, Failed)
  /\ UNCHANGED <<pi, mode, exp, pc, spawned, closed, chK, panicked, pstat, ncall, cargs, written, val, knows, cctx>>

ReadFlags(t, v, line) ==
  IF v \in ParamNames THEN {}
  ELSE IF v \notin written THEN {F("C01.order", line, v)}
  ELSE IF v \notin knows[t] THEN {F("C01.race", line, v)} ELSE {}

Enter(t) ==
  /\ Runnable(t) /\ I(t).op = "call"
  /\ LET in == I(t)
         p == in.p
         known == p \in DOMAIN exp.nres
         at == [i \in DOMAIN in.args |-> val[in.args[i]]]
     IN /\ pstat' = IF known THEN [pstat EXCEPT ![p] = "run"] ELSE pstat
        /\ ncall' = IF known THEN [ncall EXCEPT ![p] = @ + 1] ELSE ncall
        /\ cargs' = [cargs EXCEPT ![t] = at]
        /\ ts' = [ts EXCEPT ![t] = "incall"]
        /\ flag' = UNION {ReadFlags(t, in.args[i], in.line) : i \in DOMAIN in.args}
                   \cup (IF ~known THEN {F("C02.unneeded", in.line, p)}
                         ELSE (IF p \notin exp.needed THEN {F("C02.unneeded", in.line, p)} ELSE {})
                              \cup (IF ncall[p] >= 1 THEN {F("C02.once", in.line, p)} ELSE {})
                              \cup (IF exp.tdeps[p] \cap Failed # {} THEN {F("C06.dependent", in.line, p)} ELSE {})
                              \cup (IF Len(at) # Len(exp.args[p]) THEN {F("C01.value", in.line, p)}
                                    ELSE {F("C01.value", in.line, p) : i \in {j \in DOMAIN at :
                                            at[j] \notin ZeroIsh /\ at[j] # exp.args[p][j]}})
                              \cup (IF mainRet.done /\ FaultFree THEN {F("C03.join", in.line, p)} ELSE {}))
  /\ UNCHANGED <<pi, mode, exp, pc, spawned, closed, chK, panicked, written, val, knows, endK, egErr, ictx, cctx, mainRet>>

AssignRets(t, terms) ==
  LET in == I(t)
      dst == {in.rets[k] : k \in DOMAIN in.rets} \ {"_"}
  IN /\ written' = written \cup dst
     /\ val' = [v \in VarNames |-> IF \E k \in DOMAIN in.rets : in.rets[k] = v /\ v # "_"
                                   THEN terms[CHOOSE k \in DOMAIN in.rets : in.rets[k] = v] ELSE val[v]]
     /\ knows' = [knows EXCEPT ![t] = @ \cup dst]

ExitOK(t) ==
  /\ Live /\ ts[t] = "incall"
  /\ LET in == I(t)
         p == in.p
     IN /\ AssignRets(t, [k \in DOMAIN in.rets |-> TermOf(p, k, cargs[t])])
        /\ pstat' = IF p \in DOMAIN pstat THEN [pstat EXCEPT ![p] = "ok"] ELSE pstat
  /\ ts' = [ts EXCEPT ![t] = "ready"]
  /\ pc' = [pc EXCEPT ![t] = @ + 1]
  /\ flag' = {}
  /\ UNCHANGED <<pi, mode, exp, spawned, closed, chK, panicked, ncall, cargs, endK, egErr, ictx, cctx, mainRet>>

ExitFail(t) ==
  /\ Live /\ ts[t] = "incall" /\ "fail" \in mode
  /\ LET in == I(t)
         p == in.p
     IN /\ p \in DOMAIN exp.fall /\ exp.fall[p]
        /\ pstat' = [pstat EXCEPT ![p] = "fail"]
        /\ IF in.fall /\ in.errck = "ret"
           THEN \* if err != nil { return ... }
                /\ Leave(t, "zero", ErrOf(in.rerr, "prov:" \o p), in.rline, {}, Failed \cup {p})
                /\ UNCHANGED <<pc, written, val, knows>>
           ELSE \* the error is not looked at: the zero results are assigned and the thread goes on
                /\ AssignRets(t, [k \in DOMAIN in.rets |-> P.vzero[in.rets[k]]])
                /\ ts' = [ts EXCEPT ![t] = "ready"]
                /\ pc' = [pc EXCEPT ![t] = @ + 1]
                /\ flag' = {}
                /\ UNCHANGED <<endK, egErr, ictx, mainRet>>
  /\ UNCHANGED <<pi, mode, exp, spawned, closed, chK, panicked, ncall, cargs, cctx>>

Field(t) ==
  /\ Runnable(t) /\ I(t).op = "field"
  /\ LET in == I(t)
     IN /\ flag' = ReadFlags(t, in.src, in.line)
        /\ written' = IF in.dst = "_" THEN written ELSE written \cup {in.dst}
        /\ val' = IF in.dst = "_" THEN val
                  ELSE [val EXCEPT ![in.dst] = IF in.src \notin written \/ val[in.src] \in ZeroIsh THEN P.vzero[in.dst]
                                               ELSE FldTerm(val[in.src], in.field)]
        /\ knows' = [knows EXCEPT ![t] = @ \cup {in.dst}]
  /\ pc' = [pc EXCEPT ![t] = @ + 1]
  /\ UNCHANGED <<pi, mode, exp, ts, spawned, closed, chK, panicked, pstat, ncall, cargs, endK, egErr, ictx, cctx, mainRet>>

Close(t) ==
  /\ Runnable(t) /\ I(t).op = "close"
  /\ LET cs == Range(I(t).chans)
     IN IF cs \cap closed # {} \/ Cardinality(cs) # Len(I(t).chans)
        THEN /\ panicked' = TRUE
             /\ flag' = {F(StuckClause("panic"), I(t).line, "close of closed channel")}
             /\ UNCHANGED <<closed, chK, pc>>
        ELSE /\ closed' = closed \cup cs
             /\ chK' = [c \in DOMAIN chK |-> IF c \in cs THEN knows[t] ELSE chK[c]]
             /\ pc' = [pc EXCEPT ![t] = @ + 1]
             /\ flag' = {}
             /\ UNCHANGED panicked
  /\ UNCHANGED <<pi, mode, exp, ts, spawned, pstat, ncall, cargs, written, val, knows, endK, egErr, ictx, cctx, mainRet>>

EgWait(t) ==
  /\ Runnable(t) /\ I(t).op = "egwait" /\ t = 1
  /\ \A u \in 2..NT : ts[u] = "done"
  /\ IF I(t).chk /\ egErr # ""
     THEN /\ mainRet' = [done |-> TRUE, val |-> "zero", err |-> ErrOf(I(t).rerr, egErr), rline |-> I(t).rline]
          /\ ts' = [ts EXCEPT ![1] = "done"]
          /\ flag' = MainReturnFlags("zero", ErrOf(I(t).rerr, egErr), I(t).rline, Failed)
          /\ UNCHANGED pc
     ELSE /\ pc' = [pc EXCEPT ![1] = @ + 1]
          /\ flag' = {}
          /\ UNCHANGED <<mainRet, ts>>
  /\ knows' = [knows EXCEPT ![1] = @ \cup endK]
  /\ ictx' = (ictx \/ P.egform = "withctx")
  /\ UNCHANGED <<pi, mode, exp, spawned, closed, chK, panicked, pstat, ncall, cargs, written, val, endK, egErr, cctx>>

Ret(t) ==
  /\ Runnable(t) /\ I(t).op = "ret" /\ t = 1
  /\ Leave(1, val[I(t).v], "", I(t).rline, {f \in ReadFlags(1, I(t).v, I(t).line) : f.clause = "C01.race"}, Failed)
  /\ UNCHANGED <<pi, mode, exp, pc, spawned, closed, chK, panicked, pstat, ncall, cargs, written, val, knows, cctx>>

GEnd(t) ==
  /\ Runnable(t) /\ I(t).op = "gend" /\ t # 1
  /\ Leave(t, "", "", 0, {}, Failed)
  /\ UNCHANGED <<pi, mode, exp, pc, spawned, closed, chK, panicked, pstat, ncall, cargs, written, val, knows, cctx>>

CallerCancel ==
  /\ Live /\ "cancel" \in mode /\ HasCtx /\ ~cctx /\ ~mainRet.done
  /\ cctx' = TRUE
  /\ flag' = {}
  /\ UNCHANGED <<pi, mode, exp, pc, ts, spawned, closed, chK, panicked, pstat, ncall, cargs, written, val, knows, endK, egErr, ictx, mainRet>>

Step(t) == WaitRecv(t) \/ WaitCtx(t) \/ Enter(t) \/ ExitOK(t) \/ ExitFail(t) \/ Field(t) \/ Close(t) \/ EgWait(t) \/ Ret(t) \/ GEnd(t)

Next == Go \/ CallerCancel \/ \E t \in 1..NT : Step(t)

Spec == Init /\ [][Next]_vars

(* ---- terminal states ---- *)
Terminal == ~ENABLED Next

BlockedLines == {I(t).line : t \in {u \in 1..NT : ts[u] = "ready" /\ pc[u] <= Len(Thr(u))}}

TerminalFlags ==
  IF ~Terminal \/ panicked THEN {}
  ELSE IF ~mainRet.done
       THEN {[clause |-> StuckClause("hang"), rline |-> 0, parked |-> BlockedLines, detail |-> ""]}
       ELSE IF \E t \in 2..NT : ts[t] # "done"
            THEN {[clause |-> "C08.stuck", rline |-> mainRet.rline,
                   parked |-> {I(t).line : t \in {u \in 2..NT : ts[u] = "ready" /\ pc[u] <= Len(Thr(u))}},
                   detail |-> ""]}
            ELSE {}

Witness == IF Cardinality(exp.zia) >= 2 /\ \A p \in exp.zia : pstat[p] = "run"
           THEN {[clause |-> "C05.witness", rline |-> 0, parked |-> {}, detail |-> ""]} ELSE {}

(* evaluated in every reachable state (as an invariant that is always TRUE): accumulate what went wrong where *)
Collect ==
  TLCSet(1, TLCGet(1) \cup {[prog |-> P.decl, mode |-> mode, f |-> x] : x \in flag \cup TerminalFlags \cup Witness})

ModesNone == {{}}

ASSUME TLCSet(1, {})

Post == JsonSerialize("model_out.json", [flags |-> TLCGet(1)])

(* hide nothing: flag is part of the state on purpose (it distinguishes how a state was reached only when a      *)
(* clause was violated on the way in)                                                                            *)
=============================================================================================================
