---------------------------------------------- MODULE InstallFS ----------------------------------------------
(* Abstract file system and the requirements of the skill installer on it (C15, C16), as a trace automaton.     *)
(*                                                                                                              *)
(* A run of `kessoku llm-setup <agent> [--user] [--path p]` is observed at the system-call boundary (strace):   *)
(* every mutating call is one event, in program order, ending with Exit(code) or Killed.  No source hook is      *)
(* involved, so any restructuring of install.go is observed the same way.  Events (paths relative to the        *)
(* throw-away root of the run):                                                                                  *)
(*   Start(run, dest, prior, new, allowed, mkdirok)   the scenario: destination paths, what lay there before      *)
(*                                                    (path -> [content, mode]), what must lie there after,       *)
(*                                                    the directory everything must stay under, the ancestors     *)
(*                                                    that may be created                                         *)
(*   Mkdir(path, ok)  Open(path, creat, excl, trunc, wr, mode, ok)  Write(path, cum, n, ok)  Fsync(path, ok)      *)
(*   Close(path, ok)  Chmod(path, mode, ok)  Rename(src, dst, ok)  Unlink(path, ok)  Truncate(path, ok)           *)
(*   Exit(code, stderr)  Killed   Snapshot(files)  (the real tree after the process ended: path -> [content,mode])*)
(* The abstract state is files: path -> [content, mode] (content = hash of the bytes written so far, "" when       *)
(* empty) and dirs.  Requirements, evaluated in EVERY state (i.e. at every possible crash instant):              *)
(*   DestAtomic   every destination is absent, exactly its previous self, or entirely new with mode 0644          *)
(*   Contained    every mutated path lies under `allowed`, or is a missing ancestor being created                 *)
(* and at the end: FailClean (error exit: message, no temporary file left, previous destinations intact),          *)
(* Complete (exit 0: every destination new, nothing else created), Conforms (the model's files = the real tree).   *)
EXTENDS Naturals, Sequences, FiniteSets, TLC, Json

Trace == ndJsonDeserialize("fs.ndjson")

VARIABLES l, sc, files, dirs, viol, done
vars == <<l, sc, files, dirs, viol, done>>

Ev == Trace[l]
Range(s) == {s[i] : i \in DOMAIN s}

NoFile == [content |-> "?", mode |-> "?"]
Get(f, p) == IF p \in DOMAIN f THEN f[p] ELSE NoFile
Put(f, p, v) == IF p \in DOMAIN f THEN [f EXCEPT ![p] = v] ELSE f @@ (p :> v)
Del(f, p) == [q \in DOMAIN f \ {p} |-> f[q]]

V(clause, detail) == [run |-> sc.run, clause |-> clause, detail |-> detail, line |-> l]

(* path containment on strings is precomputed by the recorder (field `under` / `ancestor` of each event),        *)
(* because TLA+ has no substring primitive; the recorder's computation is a pure prefix test on cleaned paths.    *)

DestOK(f, d) ==
  \/ d \notin DOMAIN f
  \/ (d \in DOMAIN sc.prior /\ f[d] = sc.prior[d])
  \/ (f[d].content = sc.new[d] /\ f[d].mode = "0644")

DestAtomicViol(f) == {V("C15.atomic", d) : d \in {x \in Range(sc.dest) : ~DestOK(f, x)}}

ContainedViol(e) ==
  IF e.ok /\ ~e.under /\ ~(e.ev = "Mkdir" /\ e.ancestor) THEN {V("C16.contained", e.path)} ELSE {}

Start ==
  /\ l <= Len(Trace) /\ Ev.ev = "Start" /\ l' = l + 1
  /\ sc' = Ev
  /\ files' = Ev.prior
  /\ dirs' = {}
  /\ UNCHANGED <<viol, done>>

Step(f2, d2, extra) ==
  /\ l' = l + 1
  /\ files' = f2 /\ dirs' = d2
  /\ viol' = viol \cup extra \cup DestAtomicViol(f2)
  /\ UNCHANGED <<sc, done>>

Mkdir ==
  /\ l <= Len(Trace) /\ Ev.ev = "Mkdir"
  /\ Step(files, IF Ev.ok THEN dirs \cup {Ev.path} ELSE dirs, ContainedViol(Ev))

Open ==
  /\ l <= Len(Trace) /\ Ev.ev = "Open"
  /\ LET f2 == IF ~Ev.ok THEN files
               ELSE IF Ev.path \notin DOMAIN files /\ Ev.creat THEN Put(files, Ev.path, [content |-> "", mode |-> Ev.mode])
               ELSE IF Ev.path \in DOMAIN files /\ Ev.trunc /\ Ev.wr THEN Put(files, Ev.path, [content |-> "", mode |-> files[Ev.path].mode])
               ELSE files
     IN Step(f2, dirs, IF Ev.wr \/ Ev.creat THEN ContainedViol(Ev) ELSE {})

Write ==
  /\ l <= Len(Trace) /\ Ev.ev = "Write"
  /\ LET f2 == IF Ev.ok /\ Ev.path \in DOMAIN files THEN Put(files, Ev.path, [content |-> Ev.cum, mode |-> files[Ev.path].mode]) ELSE files
     IN Step(f2, dirs, ContainedViol(Ev))

Truncate ==
  /\ l <= Len(Trace) /\ Ev.ev = "Truncate"
  /\ LET f2 == IF Ev.ok /\ Ev.path \in DOMAIN files THEN Put(files, Ev.path, [content |-> "", mode |-> files[Ev.path].mode]) ELSE files
     IN Step(f2, dirs, ContainedViol(Ev))

Noop ==
  /\ l <= Len(Trace) /\ Ev.ev \in {"Fsync", "Close"}
  /\ Step(files, dirs, {})

Chmod ==
  /\ l <= Len(Trace) /\ Ev.ev = "Chmod"
  /\ LET f2 == IF Ev.ok /\ Ev.path \in DOMAIN files THEN Put(files, Ev.path, [content |-> files[Ev.path].content, mode |-> Ev.mode]) ELSE files
     IN Step(f2, dirs, ContainedViol(Ev))

Rename ==
  /\ l <= Len(Trace) /\ Ev.ev = "Rename"
  /\ LET f2 == IF Ev.ok /\ Ev.path \in DOMAIN files THEN Put(Del(files, Ev.path), Ev.dst, files[Ev.path]) ELSE files
     IN Step(f2, dirs, ContainedViol(Ev) \cup (IF Ev.ok /\ ~Ev.dstunder THEN {V("C16.contained", Ev.dst)} ELSE {}))

Unlink ==
  /\ l <= Len(Trace) /\ Ev.ev = "Unlink"
  /\ LET f2 == IF Ev.ok /\ Ev.path \in DOMAIN files THEN Del(files, Ev.path) ELSE files
     IN Step(f2, dirs, ContainedViol(Ev))

(* the process ended by itself *)
Exit ==
  /\ l <= Len(Trace) /\ Ev.ev = "Exit"
  /\ LET extra == DOMAIN files \ (Range(sc.dest) \cup DOMAIN sc.prior)
         fail == IF Ev.code # 0
                 THEN (IF Ev.stderr = "" THEN {V("C15.failclean", "no error message")} ELSE {})
                      \cup {V("C15.failclean", "temporary file left: " \o p) : p \in extra}
                      \cup {V("C15.failclean", "previous destination not intact: " \o d) :
                              d \in {x \in DOMAIN sc.prior : ~(x \in DOMAIN files /\ (files[x] = sc.prior[x]
                                                                 \/ (x \in Range(sc.dest) /\ files[x].content = sc.new[x] /\ files[x].mode = "0644")))}}
                 ELSE {}
         succ == IF Ev.code = 0 /\ sc.expectok
                 THEN {V("C16.complete", d) : d \in {x \in Range(sc.dest) : ~(x \in DOMAIN files /\ files[x].content = sc.new[x] /\ files[x].mode = "0644")}}
                      \cup {V("C16.extra", p) : p \in extra}
                 ELSE {}
         wrongcode == IF (Ev.code = 0) # sc.expectok /\ ~sc.injected
                      THEN {V("C16.exit", ToString(Ev.code))} ELSE {}
         (* a run that follows a crashed one, on an installation that can succeed, must itself succeed: whatever the
            crash left behind must not be in its way *)
         rerunfail == IF sc.rerun /\ sc.expectok /\ Ev.code # 0
                      THEN {V("C15.rerun", "the run after a crash failed: " \o Ev.stderr)} ELSE {}
     IN Step(files, dirs, fail \cup succ \cup wrongcode \cup rerunfail)

Killed ==
  /\ l <= Len(Trace) /\ Ev.ev = "Killed"
  /\ Step(files, dirs, {})

(* the real directory tree after the process ended must be the model's: binds the abstract FS to the real one *)
Snapshot ==
  /\ l <= Len(Trace) /\ Ev.ev = "Snapshot"
  /\ LET real == Ev.files
         diff == {p \in DOMAIN real \cup DOMAIN files : Get(real, p) # Get(files, p)}
     IN Step(files, dirs, {V("FS.conform", p) : p \in diff}
                           \cup {V("C15.atomic.real", d) : d \in {x \in Range(sc.dest) : ~DestOK(real, x)}})

Finish ==
  /\ l > Len(Trace) /\ ~done
  /\ done' = TRUE
  /\ JsonSerialize("viol.json", [viol |-> viol, lines |-> l - 1])
  /\ UNCHANGED <<l, sc, files, dirs, viol>>

Init == l = 1 /\ sc = [run |-> ""] /\ files = <<>> /\ dirs = {} /\ viol = {} /\ done = FALSE
Next == Start \/ Mkdir \/ Open \/ Write \/ Truncate \/ Noop \/ Chmod \/ Rename \/ Unlink \/ Exit \/ Killed \/ Snapshot \/ Finish
Spec == Init /\ [][Next]_vars
TraceAccepted == TLCGet("stats").diameter = Len(Trace) + 2
=============================================================================================================
