SPECIFICATION Spec
CONSTANTS
  Requests <- ReqSet
  PreSeeded <- Pre
  MaxLen = 4
  Fixed = FALSE
INVARIANT Fresh
INVARIANT Dump
POSTCONDITION Post
CHECK_DEADLOCK FALSE
