SPECIFICATION TSpec
INVARIANT Mark
POSTCONDITION TPost
CHECK_DEADLOCK FALSE
