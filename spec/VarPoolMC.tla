---- MODULE VarPoolMC ----
EXTENDS VarPoolImpl
ReqSet == {<<"name", "foo">>, <<"name", "foo0">>, <<"name", "foo1">>, <<"name", "fooCh">>, <<"name", "fooCh0">>,
           <<"name", "err">>, <<"name", "err0">>, <<"chan", "foo">>, <<"chan", "foo0">>, <<"name", "pkg">>, <<"name", "string">>,
           <<"name", "int3">>}   \* int3, int30, int31, then int32 is predeclared
\* for histories of length 5 (thorough): fewer request kinds, still every collision class
ReqSet5 == {<<"name", "foo">>, <<"name", "foo0">>, <<"name", "fooCh">>, <<"name", "err">>, <<"name", "err0">>, <<"chan", "foo">>,
            <<"chan", "foo0">>, <<"name", "pkg">>, <<"name", "int3">>}
Pre == {"pkg", "pkg0"}
====
