--------------------------------------------- MODULE InjectorTrace ---------------------------------------------
(* White-box trace validation: every execution recorded from the REAL injector must be a behaviour of           *)
(* Injector.tla run on the program extracted from the very file that was executed.  This is what binds the      *)
(* model of Go's primitives (select, close, errgroup, context) and the extractor to reality: a real trace the    *)
(* model cannot produce means the model or the extractor misrepresents the code (exit 2, never a verdict).       *)
(*                                                                                                              *)
(* Visible events (from harness/rt): Cancel, Enter(p, args), Exit(p, ok), Return(site, cls, term), Hang, End.    *)
(* Everything else the program does between two of them (goroutine start, receive, close, field read, Wait,      *)
(* goroutine end, the return statement itself) is a silent step; each instruction runs at most once, so the      *)
(* silent closure is finite.  Several executions are validated in one TLC run (Reset between them).             *)
EXTENDS Injector

Traces == JsonDeserialize("wtraces.json")   \* <<[prog, mode, events]>>, prog = index into Progs

VARIABLES ti, l
tvars == <<pi, mode, exp, pc, ts, spawned, closed, chK, panicked, pstat, ncall, cargs, written, val, knows, endK,
           egErr, ictx, cctx, mainRet, flag, ti, l>>

More == ti <= Len(Traces)
Evs == Traces[ti].events
E == Evs[l]
HasE == More /\ l <= Len(Evs)
Keep == UNCHANGED <<ti, l>>
Eat == l' = l + 1 /\ UNCHANGED ti

ModeOf(i) == {Traces[i].mode[k] : k \in DOMAIN Traces[i].mode}

TInit ==
  /\ ti = 1 /\ l = 1
  /\ pi = Traces[1].prog /\ mode = ModeOf(1)
  /\ exp = MkExp(Decls[Progs[pi].declidx])
  /\ pc = [t \in 1..NT |-> 1]
  /\ ts = [t \in 1..NT |-> IF t = 1 THEN "ready" ELSE "unspawned"]
  /\ spawned = 0
  /\ closed = {} /\ chK = [c \in Range(P.chans) |-> {}]
  /\ panicked = FALSE
  /\ pstat = [p \in DOMAIN exp.nres |-> "idle"] /\ ncall = [p \in DOMAIN exp.nres |-> 0]
  /\ cargs = [t \in 1..NT |-> <<>>]
  /\ written = ParamNames
  /\ val = [v \in VarNames |-> IF v \in ParamNames THEN ArgTerm(ParamType(v)) ELSE P.vzero[v]]
  /\ knows = [t \in 1..NT |-> ParamNames]
  /\ endK = {} /\ egErr = "" /\ ictx = FALSE /\ cctx = FALSE
  /\ mainRet = NoRet
  /\ flag = {}

(* re-initialise for the next execution *)
Reset ==
  /\ HasE /\ E.ev = "End"
  /\ ti' = ti + 1 /\ l' = 1
  /\ IF ti + 1 > Len(Traces)
     THEN UNCHANGED vars
     ELSE LET q == Traces[ti + 1].prog
              Q == Progs[q]
              n == Len(Q.threads)
              pn == {Q.ptype[i][1] : i \in DOMAIN Q.ptype}
              vn == Range(Q.vars) \cup pn \cup {"_"}
              ex == MkExp(Decls[Q.declidx])
          IN /\ pi' = q /\ mode' = ModeOf(ti + 1) /\ exp' = ex
             /\ pc' = [t \in 1..n |-> 1]
             /\ ts' = [t \in 1..n |-> IF t = 1 THEN "ready" ELSE "unspawned"]
             /\ spawned' = 0 /\ closed' = {} /\ chK' = [c \in Range(Q.chans) |-> {}]
             /\ panicked' = FALSE
             /\ pstat' = [p \in DOMAIN ex.nres |-> "idle"] /\ ncall' = [p \in DOMAIN ex.nres |-> 0]
             /\ cargs' = [t \in 1..n |-> <<>>]
             /\ written' = pn
             /\ val' = [v \in vn |-> IF v \in pn
                                     THEN ArgTerm((LET i == CHOOSE j \in DOMAIN Q.ptype : Q.ptype[j][1] = v IN Q.ptype[i][2]))
                                     ELSE Q.vzero[v]]
             /\ knows' = [t \in 1..n |-> pn]
             /\ endK' = {} /\ egErr' = "" /\ ictx' = FALSE /\ cctx' = FALSE
             /\ mainRet' = NoRet /\ flag' = {}

ArgsMatch(model, real) ==
  /\ Len(model) = Len(real)
  /\ \A i \in DOMAIN model : model[i] = "?" \/ model[i] = real[i]

(* injected constants (kessoku.Value) are not instrumented: their call is silent *)
IsValueCall(t) == pc[t] <= Len(Thr(t)) /\ I(t).op = "call" /\ I(t).p \in DOMAIN exp.kind /\ exp.kind[I(t).p] = "value"

Silent ==
  /\ More /\ Keep
  /\ \/ Go
     \/ \E t \in 1..NT : \/ WaitRecv(t)
                         \/ (IsValueCall(t) /\ Enter(t))
                         \/ (IsValueCall(t) /\ ExitOK(t))
                         \/ WaitCtx(t)
                         \/ Field(t)
                         \/ Close(t)
                         \/ EgWait(t)
                         \/ Ret(t)
                         \/ GEnd(t)

VEnter ==
  /\ HasE /\ E.ev = "Enter" /\ Eat
  /\ \E t \in 1..NT : ~IsValueCall(t) /\ Enter(t) /\ I(t).p = E.p /\ ArgsMatch(cargs'[t], E.args)

VExit ==
  /\ HasE /\ E.ev = "Exit" /\ Eat
  /\ \E t \in 1..NT : /\ ts[t] = "incall" /\ I(t).p = E.p
                      /\ IF E.ok THEN ExitOK(t) ELSE ExitFail(t)

VCancel ==
  /\ HasE /\ E.ev = "Cancel" /\ Eat
  /\ CallerCancel

ClsMatch(cls, err) ==
  \/ cls = "nil" /\ err = ""
  \/ cls = "ctx:canceled" /\ err \in {"ctx:caller", "ctx:internal"}
  \/ cls \notin {"nil", "ctx:canceled"} /\ err = cls

VReturn ==
  /\ HasE /\ E.ev = "Return" /\ Eat
  /\ mainRet.done
  /\ mainRet.rline = E.site
  /\ ClsMatch(E.cls, mainRet.err)
  /\ (mainRet.val \in {"zero", "nil", "?", ""} \/ mainRet.val = E.term)
  /\ UNCHANGED vars

VHang ==
  /\ HasE /\ E.ev = "Hang" /\ Eat
  /\ ~mainRet.done /\ ~ENABLED Next
  /\ UNCHANGED vars

TNext == Silent \/ VEnter \/ VExit \/ VCancel \/ VReturn \/ VHang \/ Reset
TSpec == TInit /\ [][TNext]_tvars

(* progress register: the furthest point of the file any behaviour reached *)
Further(a, b) == a[1] > b[1] \/ (a[1] = b[1] /\ a[2] > b[2])
Mark == IF Further(<<ti, l>>, TLCGet(3)) THEN TLCSet(3, <<ti, l>>) ELSE TRUE
ASSUME TLCSet(3, <<0, 0>>)
TPost == JsonSerialize("wtrace_out.json", [reached |-> TLCGet(3), total |-> Len(Traces)])
=============================================================================================================
