----------------------------------------------- MODULE PlanDump -----------------------------------------------
(* Plans every declaration of decls.json with Planner.tla and writes the programs (Injector.tla instruction set)  *)
(* to plan_progs.json; they are then model-checked by Injector.tla like extracted programs.                       *)
EXTENDS Planner, Json

Decls == JsonDeserialize("decls.json")
ASSUME JsonSerialize("plan_progs.json", [i \in DOMAIN Decls |-> PlanProg(Decls[i], i)])

VARIABLE x
Init == x = 0
Next == x' = x /\ FALSE
Spec == Init /\ [][Next]_x
=============================================================================================================
