------------------------------------------------ MODULE Install ------------------------------------------------
(* The installation algorithm of internal/llmsetup/install.go as a state machine (implementation-shaped), with   *)
(* a Crash enabled between any two file-system steps and a single injected step failure.  Per file:              *)
(*   mkdir -> create temp (0600, in the target directory) -> write (possibly in two parts) -> sync -> close ->    *)
(*   chmod 0644 -> rename over the destination;   on a failed step: close if open, remove the temp file, stop.    *)
(* After a crash the installer is run again, without faults.  TLC explores every crash point x every single        *)
(* failing step x prior states {absent, old} of every destination and checks the requirements of InstallFS:        *)
(*   DestAtomic (in every state), FailClean (at an error exit), RerunCompletes (a later run completes).            *)
EXTENDS Naturals, Sequences, FiniteSets, TLC

CONSTANTS Files        \* sequence of file ids, installed in this order

Steps == <<"mkdir", "create", "write1", "write2", "sync", "close", "chmod", "rename">>

VARIABLES dest,      \* file -> [content \in {"absent","old","new"}, mode]
          prior,     \* file -> the same, before the first run
          tmp,       \* file -> [state \in {"none","empty","partial","full"}, mode, open]
          cur,       \* index into Files of the file being installed
          step,      \* index into Steps
          status,    \* "running" | "cleanup" | "failed" | "crashed" | "ok"
          faulted,   \* a step has been made to fail (at most one per behaviour)
          run        \* 1, or 2 after a crash

vars == <<dest, prior, tmp, cur, step, status, faulted, run>>

F == Files[cur]
NoTmp == [state |-> "none", mode |-> "", open |-> FALSE]

Init ==
  /\ prior \in [{Files[i] : i \in DOMAIN Files} -> {[content |-> "absent", mode |-> ""], [content |-> "old", mode |-> "0644"]}]
  /\ dest = prior
  /\ tmp = [f \in {Files[i] : i \in DOMAIN Files} |-> NoTmp]
  /\ cur = 1 /\ step = 1 /\ status = "running" /\ faulted = FALSE /\ run = 1

Advance ==
  IF step < Len(Steps) THEN step' = step + 1 /\ UNCHANGED cur /\ UNCHANGED status
  ELSE IF cur < Len(Files) THEN cur' = cur + 1 /\ step' = 1 /\ UNCHANGED status
  ELSE status' = "ok" /\ UNCHANGED <<cur, step>>

(* the effect of one successful step on the file system *)
Effect(s) ==
  CASE s = "mkdir"  -> UNCHANGED <<dest, tmp>>
    [] s = "create" -> tmp' = [tmp EXCEPT ![F] = [state |-> "empty", mode |-> "0600", open |-> TRUE]] /\ UNCHANGED dest
    [] s = "write1" -> tmp' = [tmp EXCEPT ![F].state = "partial"] /\ UNCHANGED dest
    [] s = "write2" -> tmp' = [tmp EXCEPT ![F].state = "full"] /\ UNCHANGED dest
    [] s = "sync"   -> UNCHANGED <<dest, tmp>>
    [] s = "close"  -> tmp' = [tmp EXCEPT ![F].open = FALSE] /\ UNCHANGED dest
    [] s = "chmod"  -> tmp' = [tmp EXCEPT ![F].mode = "0644"] /\ UNCHANGED dest
    [] s = "rename" -> /\ dest' = [dest EXCEPT ![F] = [content |-> IF tmp[F].state = "full" THEN "new" ELSE "torn", mode |-> tmp[F].mode]]
                       /\ tmp' = [tmp EXCEPT ![F] = NoTmp]

StepOK ==
  /\ status = "running"
  /\ Effect(Steps[step])
  /\ Advance
  /\ UNCHANGED <<prior, faulted, run>>

(* one step fails (only in the first run): the deferred cleanup runs *)
StepFail ==
  /\ status = "running" /\ run = 1 /\ ~faulted
  /\ faulted' = TRUE
  /\ status' = "cleanup"
  /\ UNCHANGED <<dest, prior, tmp, cur, step, run>>

Cleanup ==
  /\ status = "cleanup"
  /\ tmp' = [tmp EXCEPT ![F] = NoTmp]       \* close if open, remove the temp file
  /\ status' = "failed"
  /\ UNCHANGED <<dest, prior, cur, step, faulted, run>>

Crash ==
  /\ status \in {"running", "cleanup"} /\ run = 1
  /\ status' = "crashed"
  /\ tmp' = [f \in DOMAIN tmp |-> [tmp[f] EXCEPT !.open = FALSE]]
  /\ UNCHANGED <<dest, prior, cur, step, faulted, run>>

Rerun ==
  /\ status = "crashed"
  /\ run' = 2 /\ cur' = 1 /\ step' = 1 /\ status' = "running"
  /\ UNCHANGED <<dest, prior, tmp, faulted>>

Next == StepOK \/ StepFail \/ Cleanup \/ Crash \/ Rerun
Spec == Init /\ [][Next]_vars

DestOK(f) == \/ dest[f] = prior[f]
             \/ dest[f] = [content |-> "new", mode |-> "0644"]
DestAtomic == \A f \in DOMAIN dest : DestOK(f)
FailClean == status = "failed" => (\A f \in DOMAIN tmp : tmp[f].state = "none") /\ DestAtomic
RerunCompletes == (status = "ok") => \A f \in DOMAIN dest : dest[f] = [content |-> "new", mode |-> "0644"]
=============================================================================================================
