------------------------------------------------ MODULE Install ------------------------------------------------
(* The installation algorithm of internal/llmsetup/install.go as a state machine (implementation-shaped), with   *)
(* a Crash enabled between any two file-system steps and injected step failures.  Per file (InstallFile):         *)
(*   MkdirAll -> CreateTemp (0600, random name, in the target directory) -> Write (in one or several parts) ->     *)
(*   Sync -> Close -> Chmod 0644 -> Rename over the destination;                                                   *)
(*   on a failed step: the deferred function closes the temp file if open and removes it; the walk stops.          *)
(* Files are installed one after the other in an order the model leaves open (the code walks an embedded tree).   *)
(* After a crash the installer is run again.  Temp files orphaned by a crash stay (random names: they are never    *)
(* in the way of a later run) and are counted.                                                                     *)
(* Requirements (those of InstallFS.tla, on the abstract state):                                                   *)
(*   DestAtomic (in every state), FailClean (at an error exit), RerunCompletes (a later run completes).            *)
(* Bound to the code by InstallTrace.tla: every recorded run of the real installer (normal, faulted, killed,      *)
(* rerun) must be a behaviour of this module.                                                                      *)
EXTENDS Naturals, Sequences, FiniteSets, TLC

CONSTANTS Files,       \* set of file ids
          Priors       \* the states a destination may be in before the first run: set of [content, mode]

None == "-"
Steps == <<"mkdir", "create", "write", "sync", "close", "chmod", "rename">>

VARIABLES dest,      \* file -> [content \in {"absent","old","new","torn"}, mode]
          prior,     \* file -> the same, before the first run
          tmp,       \* file -> [state \in {"none","empty","partial","full"}, mode, open]  (the temp file of this run)
          todo,      \* files still to be installed by this run
          cur,       \* the file being installed, or None
          step,      \* index into Steps
          status,    \* "running" | "cleanup" | "failed" | "crashed" | "ok"
          faults,    \* number of steps made to fail so far
          orphans,   \* temp files left behind by crashed runs
          run        \* 1, or 2 after a crash

vars == <<dest, prior, tmp, todo, cur, step, status, faults, orphans, run>>

NoTmp == [state |-> "none", mode |-> "", open |-> FALSE]
Absent == [content |-> "absent", mode |-> ""]
New == [content |-> "new", mode |-> "0644"]

Init ==
  /\ prior \in [Files -> Priors]
  /\ dest = prior
  /\ tmp = [f \in Files |-> NoTmp]
  /\ todo = Files /\ cur = None /\ step = 1 /\ status = "running" /\ faults = 0 /\ orphans = 0 /\ run = 1

(* MkdirAll of the target directory of the next file; which file comes next is left open *)
Mkdir(f) ==
  /\ status = "running" /\ cur = None /\ f \in todo
  /\ cur' = f /\ step' = 2
  /\ UNCHANGED <<dest, prior, tmp, todo, status, faults, orphans, run>>

Create ==
  /\ status = "running" /\ cur # None /\ Steps[step] = "create"
  /\ tmp' = [tmp EXCEPT ![cur] = [state |-> "empty", mode |-> "0600", open |-> TRUE]]
  /\ step' = step + 1
  /\ UNCHANGED <<dest, prior, todo, cur, status, faults, orphans, run>>

(* a write that does not complete the content (the kernel may accept fewer bytes; the Go runtime retries) *)
WritePart ==
  /\ status = "running" /\ cur # None /\ Steps[step] = "write"
  /\ tmp' = [tmp EXCEPT ![cur].state = "partial"]
  /\ UNCHANGED <<dest, prior, todo, cur, step, status, faults, orphans, run>>

WriteRest ==
  /\ status = "running" /\ cur # None /\ Steps[step] = "write"
  /\ tmp' = [tmp EXCEPT ![cur].state = "full"]
  /\ step' = step + 1
  /\ UNCHANGED <<dest, prior, todo, cur, status, faults, orphans, run>>

Sync ==
  /\ status = "running" /\ cur # None /\ Steps[step] = "sync"
  /\ step' = step + 1
  /\ UNCHANGED <<dest, prior, tmp, todo, cur, status, faults, orphans, run>>

Close ==
  /\ status = "running" /\ cur # None /\ Steps[step] = "close"
  /\ tmp' = [tmp EXCEPT ![cur].open = FALSE]
  /\ step' = step + 1
  /\ UNCHANGED <<dest, prior, todo, cur, status, faults, orphans, run>>

Chmod(m) ==
  /\ status = "running" /\ cur # None /\ Steps[step] = "chmod"
  /\ tmp' = [tmp EXCEPT ![cur].mode = m]
  /\ step' = step + 1
  /\ UNCHANGED <<dest, prior, todo, cur, status, faults, orphans, run>>

Rename ==
  /\ status = "running" /\ cur # None /\ Steps[step] = "rename"
  /\ dest' = [dest EXCEPT ![cur] = [content |-> IF tmp[cur].state = "full" THEN "new" ELSE "torn", mode |-> tmp[cur].mode]]
  /\ tmp' = [tmp EXCEPT ![cur] = NoTmp]
  /\ todo' = todo \ {cur}
  /\ cur' = None /\ step' = 1
  /\ status' = IF todo \ {cur} = {} THEN "ok" ELSE "running"
  /\ UNCHANGED <<prior, faults, orphans, run>>

(* the step about to be taken fails (for "mkdir": MkdirAll of the next file, whichever it is): the deferred      *)
(* cleanup runs if a temp file exists, otherwise the run ends with the error at once                              *)
StepFail ==
  /\ status = "running"
  /\ faults' = faults + 1
  /\ status' = IF cur # None /\ tmp[cur].state # "none" THEN "cleanup" ELSE "failed"
  /\ UNCHANGED <<dest, prior, tmp, todo, cur, step, orphans, run>>

(* ResolvePath / ValidatePath refuse the base path (e.g. it is a regular file) before anything is touched *)
Refuse ==
  /\ status = "running" /\ cur = None /\ todo = Files
  /\ status' = "failed"
  /\ UNCHANGED <<dest, prior, tmp, todo, cur, step, faults, orphans, run>>

Cleanup ==
  /\ status = "cleanup"
  /\ tmp' = [tmp EXCEPT ![cur] = NoTmp]       \* close if open, remove the temp file
  /\ status' = "failed"
  /\ UNCHANGED <<dest, prior, todo, cur, step, faults, orphans, run>>

Crash ==
  /\ status \in {"running", "cleanup"}
  /\ status' = "crashed"
  /\ orphans' = orphans + Cardinality({f \in Files : tmp[f].state # "none"})
  /\ tmp' = [f \in Files |-> NoTmp]
  /\ UNCHANGED <<dest, prior, todo, cur, step, faults, run>>

Rerun ==
  /\ status \in {"crashed", "failed"}
  /\ run' = run + 1 /\ todo' = Files /\ cur' = None /\ step' = 1 /\ status' = "running"
  /\ UNCHANGED <<dest, prior, tmp, faults, orphans>>

(* exploration budget of the design model: one injected failure, in the first run; one crash; one rerun after it *)
Budget == run = 1 /\ faults = 0

Next ==
  \/ \E f \in Files : Mkdir(f)
  \/ Create \/ WritePart \/ WriteRest \/ Sync \/ Close \/ Chmod("0644") \/ Rename
  \/ (Budget /\ StepFail)
  \/ Cleanup \/ Refuse
  \/ (run = 1 /\ Crash)
  \/ (status = "crashed" /\ Rerun)
Spec == Init /\ [][Next]_vars

DestOK(f) == dest[f] = prior[f] \/ dest[f] = New
DestAtomic == \A f \in Files : DestOK(f)
FailClean == status = "failed" => (\A f \in Files : tmp[f].state = "none") /\ DestAtomic
RerunCompletes == (status = "ok") => \A f \in Files : dest[f] = New
=============================================================================================================
