---- MODULE AliasMC ----
EXTENDS AliasImpl
ReqSet == {<<"a/util", "util">>, <<"b/util", "util">>, <<"c/util", "util">>, <<"x/util_1", "util_1">>, <<"y/util_2", "util_2">>,
           <<"a/util", "u">>, <<"z/other", "other">>}
====
