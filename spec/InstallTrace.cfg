SPECIFICATION TSpec
CONSTANT Files <- TFiles
CONSTANT Priors <- TPriors
INVARIANT Mark
INVARIANT DestAtomic
INVARIANT FailClean
INVARIANT RerunCompletes
POSTCONDITION TPost
CHECK_DEADLOCK FALSE
