--------------------------------------------- MODULE InstallTrace ---------------------------------------------
(* Binds Install.tla to the code: every recorded run of the real installer (strace, see InstallFS.tla) — normal,   *)
(* with an injected failing call, killed at a call, and the run after a kill — projected on the abstract alphabet   *)
(* of Install.tla must be a behaviour of Install.tla.  The projection (lib/check_install.py, abstract_runs) only    *)
(* classifies paths (destination `rel`, temp file in directory `reldir`) and contents (new / old / torn, by hash);  *)
(* it does not guess state.  Which destination a temp file belongs to is not observable before the rename (random  *)
(* names): TLC infers it (\E f below), the Rename event resolves it.                                                *)
(*   Start(rerun, prior, ntmp)  Mkdir(ok, fatal)  Create(path, reldir, mode, excl, ok)  Write(path, full, ok)        *)
(*   Sync(path, ok)  Close(path, ok)  Chmod(path, mode, ok)  Rename(path, dst, ok)  Unlink(path, ok)                 *)
(*   Exit(code)  Killed  Snapshot(dest, ntmp)                                                                        *)
(* A step fails only when the harness made the call fail (`injected`): Install.tla gives the algorithm no failure   *)
(* of its own making, so a call that fails by itself (e.g. a temp name that is already taken) is not a behaviour.    *)
(* MkdirAll issues zero or more mkdirat calls; Install.tla has one Mkdir step per file: Mkdir events are stuttering  *)
(* and the Mkdir(f) step is taken silently in front of the Create event (no trace line consumed).                    *)
(* Acceptance: the high-water mark of l (TLC register 1) reaches Len(Trace) + 1.  DestAtomic / FailClean /           *)
(* RerunCompletes of Install.tla are invariants of the cfg: they are evaluated in every state of the real runs.      *)
EXTENDS Install, Json

Trace == ndJsonDeserialize("inst.ndjson")
Meta == JsonDeserialize("inst_meta.json")
TFiles == {Meta.files[i] : i \in DOMAIN Meta.files}
DirOf == Meta.dir
TPriors == {}

VARIABLES l, tpath
tvars == <<vars, l, tpath>>

Ev == Trace[l]
Has == l <= Len(Trace)
Consume == l' = l + 1

TInit ==
  /\ l = 1 /\ tpath = None
  /\ dest = [f \in Files |-> Absent] /\ prior = [f \in Files |-> Absent] /\ tmp = [f \in Files |-> NoTmp]
  /\ todo = {} /\ cur = None /\ step = 1 /\ status = "idle" /\ faults = 0 /\ orphans = 0 /\ run = 1

TStart ==
  /\ Has /\ Ev.ev = "Start" /\ ~Ev.rerun /\ Consume
  /\ prior' = [f \in Files |-> Ev.prior[f]] /\ dest' = [f \in Files |-> Ev.prior[f]]
  /\ tmp' = [f \in Files |-> NoTmp]
  /\ todo' = Files /\ cur' = None /\ step' = 1 /\ status' = "running" /\ faults' = 0 /\ orphans' = Ev.ntmp /\ run' = 1
  /\ tpath' = None

TRerun ==
  /\ Has /\ Ev.ev = "Start" /\ Ev.rerun /\ Consume
  /\ \A f \in Files : Ev.prior[f] = dest[f]          \* what really lies there is what the model says
  /\ Ev.ntmp = orphans
  /\ Rerun
  /\ tpath' = None

TMkdirStutter ==
  /\ Has /\ Ev.ev = "Mkdir" /\ ~Ev.fatal /\ Consume
  /\ status = "running" /\ cur = None
  /\ UNCHANGED <<vars, tpath>>

TMkdirFail ==
  /\ Has /\ Ev.ev = "Mkdir" /\ Ev.fatal /\ Ev.injected /\ Consume
  /\ cur = None /\ StepFail
  /\ UNCHANGED tpath

(* silent: MkdirAll of the directory of the file whose temp file is created next *)
TSilentMkdir ==
  /\ Has /\ Ev.ev = "Create" /\ cur = None
  /\ \E f \in todo : DirOf[f] = Ev.reldir /\ Mkdir(f)
  /\ UNCHANGED <<l, tpath>>

TCreate ==
  /\ Has /\ Ev.ev = "Create" /\ Ev.ok /\ Consume
  /\ Ev.mode = "0600" /\ Ev.excl
  /\ Create
  /\ tpath' = Ev.path

TCreateFail ==
  /\ Has /\ Ev.ev = "Create" /\ ~Ev.ok /\ Ev.injected /\ Consume
  /\ cur # None /\ Steps[step] = "create" /\ StepFail
  /\ UNCHANGED tpath

OnTmp == Ev.path = tpath

TWrite ==
  /\ Has /\ Ev.ev = "Write" /\ Ev.ok /\ OnTmp /\ Consume
  /\ IF Ev.full THEN WriteRest ELSE WritePart
  /\ UNCHANGED tpath

TSync  == Has /\ Ev.ev = "Sync" /\ Ev.ok /\ OnTmp /\ Consume /\ Sync /\ UNCHANGED tpath
TClose == Has /\ Ev.ev = "Close" /\ Ev.ok /\ OnTmp /\ Consume /\ status = "running" /\ Close /\ UNCHANGED tpath
TChmod == Has /\ Ev.ev = "Chmod" /\ Ev.ok /\ OnTmp /\ Consume /\ Chmod(Ev.mode) /\ UNCHANGED tpath

TRename ==
  /\ Has /\ Ev.ev = "Rename" /\ Ev.ok /\ OnTmp /\ Consume
  /\ Ev.dst = cur
  /\ Rename
  /\ tpath' = None

StepOf == ("Write" :> "write") @@ ("Sync" :> "sync") @@ ("Close" :> "close") @@ ("Chmod" :> "chmod") @@ ("Rename" :> "rename")

TStepFail ==
  /\ Has /\ Ev.ev \in DOMAIN StepOf /\ ~Ev.ok /\ Ev.injected /\ OnTmp /\ Consume
  /\ cur # None /\ Steps[step] = StepOf[Ev.ev]
  /\ StepFail
  /\ UNCHANGED tpath

(* the deferred function: close if still open, then remove *)
TCleanupClose ==
  /\ Has /\ Ev.ev = "Close" /\ OnTmp /\ Consume
  /\ status = "cleanup" /\ tmp[cur].open
  /\ UNCHANGED <<vars, tpath>>

TCleanupUnlink ==
  /\ Has /\ Ev.ev = "Unlink" /\ Ev.ok /\ OnTmp /\ Consume
  /\ Cleanup
  /\ tpath' = None

(* silent: the path checks refused the installation; the only observable is the exit status *)
TSilentRefuse ==
  /\ Has /\ Ev.ev = "Exit" /\ Ev.code # 0
  /\ Refuse
  /\ UNCHANGED <<l, tpath>>

TExit ==
  /\ Has /\ Ev.ev = "Exit" /\ Consume
  /\ (Ev.code = 0 /\ status = "ok") \/ (Ev.code # 0 /\ status = "failed")
  /\ UNCHANGED <<vars, tpath>>

TKilled ==
  /\ Has /\ Ev.ev = "Killed" /\ Consume
  /\ Crash
  /\ tpath' = None

TSnapshot ==
  /\ Has /\ Ev.ev = "Snapshot" /\ Consume
  /\ \A f \in Files : Ev.dest[f] = dest[f]
  /\ Ev.ntmp = orphans + Cardinality({f \in Files : tmp[f].state # "none"})
  /\ UNCHANGED <<vars, tpath>>

TNext ==
  \/ TStart \/ TRerun \/ TMkdirStutter \/ TMkdirFail \/ TSilentMkdir \/ TCreate \/ TCreateFail \/ TWrite \/ TSync \/ TClose
  \/ TChmod \/ TRename \/ TSilentRefuse \/ TStepFail \/ TCleanupClose \/ TCleanupUnlink \/ TExit \/ TKilled \/ TSnapshot

TSpec == TInit /\ [][TNext]_tvars

(* high-water mark of l, in TLC register 1 (needs -workers 1) *)
Mark == IF l > TLCGet(1) THEN TLCSet(1, l) ELSE TRUE
ASSUME TLCSet(1, 0)
TPost == JsonSerialize("inst_out.json", [reached |-> TLCGet(1), lines |-> Len(Trace)])
=============================================================================================================
