SPECIFICATION Spec
CONSTANT Modes <- ModesNone
INVARIANT Collect
POSTCONDITION Post
CHECK_DEADLOCK FALSE
