---------------------------------------------- MODULE MigrateTrace ----------------------------------------------
(* C13 / C14 on records of REAL runs: for every wire configuration, google/wire itself generated wire_gen.go,      *)
(* `kessoku migrate` produced kessoku.go, the kessoku generator produced kessoku_band.go, and BOTH injectors were  *)
(* executed on the same instrumented package.  One line per (configuration, failing provider or none):            *)
(*   [ev |-> "Pair", cfg, fail, wire |-> [term, cls, calls], kessoku |-> [term, cls, calls], kparams]              *)
(* Three observations must agree: WireSem (this specification), wire's injector, kessoku's injector.              *)
(* A disagreement between WireSem and real wire means the SPECIFICATION is wrong (clause SPEC.*, exit 2);          *)
(* a disagreement between kessoku's injector and the other two is a C13 violation.                                *)
(* C14 records: [ev |-> "Mig", cfg, kind, exit, wrote, gofmt, compiles, sets, wantsets, hashes]                    *)
EXTENDS WireSem, Json

Cfgs == JsonDeserialize("cfgs.json")
Trace == ndJsonDeserialize("mig.ndjson")

VARIABLES l, viol, done
vars == <<l, viol, done>>
Ev == Trace[l]

CfgOf(id) == Cfgs[CHOOSE i \in DOMAIN Cfgs : Cfgs[i].id = id]
V(e, clause, detail) == [cfg |-> e.cfg, fail |-> e.fail, clause |-> clause, detail |-> detail]

CallSet(calls) == {<<calls[i].name, calls[i].args>> : i \in DOMAIN calls}
Once(calls) == \A i, j \in DOMAIN calls : (calls[i].name = calls[j].name /\ calls[i].args = calls[j].args) => i = j

PairViol(e) ==
  LET C == CfgOf(e.cfg)
      want == WEval(C, C.ret)
      wc == WCalls(C)
  IN IF e.fail = ""
     THEN (IF e.wire.cls # "nil" \/ e.wire.term # want THEN {V(e, "SPEC.value", e.wire.term)} ELSE {})
          \cup (IF CallSet(e.wire.calls) # wc THEN {V(e, "SPEC.calls", "")} ELSE {})
          \cup (IF e.kessoku.cls # "nil" THEN {V(e, "C13.error", e.kessoku.cls)}
                ELSE IF e.kessoku.term # e.wire.term THEN {V(e, "C13.value", e.kessoku.term)} ELSE {})
          \cup (IF e.kessoku.cls = "nil" /\ (CallSet(e.kessoku.calls) # CallSet(e.wire.calls) \/ ~Once(e.kessoku.calls))
                THEN {V(e, "C13.calls", "")} ELSE {})
          \cup (IF Range(e.kparams) # WUsedArgs(C) \/ Len(e.kparams) # Cardinality(WUsedArgs(C))
                THEN {V(e, "C13.params", ToString(e.kparams))} ELSE {})
     ELSE (IF e.wire.cls # "prov:" \o e.fail THEN {V(e, "SPEC.error", e.wire.cls)} ELSE {})
          \cup (IF e.wire.cls = "prov:" \o e.fail /\ e.kessoku.cls # e.wire.cls THEN {V(e, "C13.error", e.kessoku.cls)} ELSE {})

Pair ==
  /\ l <= Len(Trace) /\ Ev.ev = "Pair" /\ l' = l + 1
  /\ viol' = viol \cup PairViol(Ev)
  /\ UNCHANGED done

MigViol(e) ==
  IF e.exit = 0
  THEN (IF ~e.expectok THEN {V(e, "C14.accepted", e.kind)} ELSE {})
       \cup (IF ~e.wrote THEN {V(e, "C14.nooutput", "")} ELSE {})
       \cup (IF e.wrote /\ ~e.gofmt THEN {V(e, "C14.gofmt", "")} ELSE {})
       \cup (IF e.wrote /\ ~e.compiles THEN {V(e, "C14.compile", e.diag)} ELSE {})
       \cup (IF e.wrote /\ e.sets # e.wantsets THEN {V(e, "C14.sets", ToString(e.sets))} ELSE {})
       \cup (IF Cardinality(Range(e.hashes)) > 1 THEN {V(e, "C14.deterministic", "")} ELSE {})
  ELSE (IF e.wrote THEN {V(e, "C14.wrote-on-failure", e.kind)} ELSE {})
       \cup (IF e.expectok THEN {V(e, "C14.refused", e.diag)} ELSE {})

Mig ==
  /\ l <= Len(Trace) /\ Ev.ev = "Mig" /\ l' = l + 1
  /\ viol' = viol \cup MigViol(Ev)
  /\ UNCHANGED done

Finish ==
  /\ l > Len(Trace) /\ ~done
  /\ done' = TRUE
  /\ JsonSerialize("viol.json", [viol |-> viol, lines |-> l - 1])
  /\ UNCHANGED <<l, viol>>

Init == l = 1 /\ viol = {} /\ done = FALSE
Next == Pair \/ Mig \/ Finish
Spec == Init /\ [][Next]_vars
TraceAccepted == TLCGet("stats").diameter = Len(Trace) + 2
=============================================================================================================
