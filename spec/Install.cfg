SPECIFICATION Spec
CONSTANT Files <- Files2
INVARIANT DestAtomic
INVARIANT FailClean
INVARIANT RerunCompletes
CHECK_DEADLOCK FALSE
