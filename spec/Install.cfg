SPECIFICATION Spec
CONSTANT Files <- Files2
CONSTANT Priors <- PriorsMC
INVARIANT DestAtomic
INVARIANT FailClean
INVARIANT RerunCompletes
CHECK_DEADLOCK FALSE
