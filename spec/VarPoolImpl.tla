---------------------------------------------- MODULE VarPoolImpl ----------------------------------------------
(* The name allocator of the generator as it is implemented (internal/kessoku/var_pool.go): one counter per base *)
(* name, shared by the whole invocation; the n-th request for base b yields b, b0, b1, ...; a suffixed name is    *)
(* skipped when it is itself in use as a base or was handed out before, and handing it out reserves it.           *)
(* GetChannel(b) is GetName on b \o "Ch".  Go keywords and predeclared identifiers are pre-seeded with count 1,   *)
(* and so is every package-level name / import name of the user's package (ParseFile).                            *)
(*                                                                                                               *)
(* TLC explores EVERY request history up to MaxLen over the adversarial request kinds in Requests and checks the  *)
(* requirement of Names.tla (Fresh): no name is handed out twice, none is reserved or pre-registered.  Every       *)
(* explored history, with the names the model hands out, is written out and replayed into the real VarPool.       *)
EXTENDS Names, Naturals, Json

CONSTANTS Requests,   \* set of <<kind, base>>, kind \in {"name", "chan"}
          PreSeeded,  \* package-level names registered before the first request
          MaxLen,
          Fixed       \* TRUE: the allocator with the collision check; FALSE: the plain counter-suffix scheme

VARIABLES cnt,   \* base |-> number of requests so far (absent = 0)
          out,   \* names handed out
          hist   \* <<kind, base, result>>*

vars == <<cnt, out, hist>>

Count(c, b) == IF b \in DOMAIN c THEN c[b] ELSE 0
Bump(c, b) == IF b \in DOMAIN c THEN [c EXCEPT ![b] = @ + 1] ELSE c @@ (b :> 1)
Suffixed(b, n) == IF n = 0 THEN b ELSE b \o ToString(n - 1)

(* the loop of GetName: returns <<name, counters after>> *)
RECURSIVE Alloc(_, _)
Alloc(c, b) ==
  LET n == Count(c, b)
      c1 == Bump(c, b)
      name == Suffixed(b, n)
  IN IF n = 0 THEN <<name, c1>>
     ELSE IF ~Fixed THEN <<name, c1>>
     ELSE IF Count(c1, name) = 0 THEN <<name, Bump(c1, name)>>
     ELSE Alloc(c1, b)

Seed == [x \in Reserved \cup PreSeeded |-> 1]

Init == cnt = Seed /\ out = {} /\ hist = <<>>

Request(r) ==
  /\ Len(hist) < MaxLen
  /\ LET b == IF r[1] = "chan" THEN r[2] \o "Ch" ELSE r[2]
         a == Alloc(cnt, b)
     IN /\ cnt' = a[2]
        /\ out' = out \cup {a[1]}
        /\ hist' = Append(hist, <<r[1], r[2], a[1]>>)

Next == \E r \in Requests : Request(r)
Spec == Init /\ [][Next]_vars

(* requirement (Names.tla): each name handed out could be Declared in the single name space "f" *)
Fresh ==
  \A i \in DOMAIN hist :
     /\ hist[i][3] \notin Reserved \cup PreSeeded
     /\ \A j \in DOMAIN hist : i # j => hist[i][3] # hist[j][3]

(* dump of every maximal history for the replay into the real allocator *)
Dump == IF Len(hist) = MaxLen THEN TLCSet(2, TLCGet(2) \cup {hist}) ELSE TRUE
ASSUME TLCSet(2, {})
Post == JsonSerialize("histories.json", [histories |-> TLCGet(2)])
=============================================================================================================
