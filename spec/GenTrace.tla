----------------------------------------------- MODULE GenTrace -----------------------------------------------
(* Requirement automaton for runs of the generator CLI (C09, C10, C11), validated by TLC on records of REAL      *)
(* invocations of the binary built from the working tree.                                                       *)
(*                                                                                                              *)
(* One ndjson line per invocation on one source file:                                                           *)
(*   [ev |-> "Run", decls |-> <<declaration ids in the file>>, exit, named (types of the declaration mentioned  *)
(*    in the diagnostic), out \in {"absent","created","unchanged","changed"} (what happened to the output file  *)
(*    of that source file, w.r.t. content AND modification time), funcs |-> <<[name, params, results]>> (the    *)
(*    functions of the output file, types as declaration type names, "ctx" for context.Context),                *)
(*    src (identity of the input: hash of the package sources), outhash]                                        *)
(* The abstract generator state is gen: the output this input has produced before.  Requirements:              *)
(*   C09  refusal <=> ~Accepts; a refusal names the types involved and leaves the output untouched;             *)
(*        acceptance emits exactly one function per declaration                                                 *)
(*   C10  every emitted function has Decl!ExpectedSig                                                           *)
(*   C11  Functional: a later run on the same input logs the same output hash, whatever lay in the directory    *)
EXTENDS Decl, Json

Decls == JsonDeserialize("decls.json")
Trace == ndJsonDeserialize("gen.ndjson")

VARIABLES l, gen, viol, done
vars == <<l, gen, viol, done>>

DeclOf(id) == Decls[CHOOSE i \in DOMAIN Decls : Decls[i].id = id]

V(ev, clause, decl, detail) == [run |-> ev.run, decl |-> decl, clause |-> clause, detail |-> detail]

(* types supplied by needed providers lying on a dependency cycle *)
CycleTypes(D) == UNION {ProvTypes(Prov(D, id)) : id \in {i \in Needed(D) : i \in TransDeps(D, i)}}

Involved(D) == IF Ambiguous(D) # {} THEN Ambiguous(D)
               ELSE IF OrphanStructs(D) # {} THEN OrphanStructs(D)
               ELSE CycleTypes(D)

SeqToBag(s) == [x \in Range(s) |-> Cardinality({i \in DOMAIN s : s[i] = x})]

SigViol(ev, D, f) ==
  LET E == ExpectedSig(D)
      want == E.params
      nres == Len(f.results)
  IN (IF Range(f.params) # want \/ Len(f.params) # Cardinality(want)
      THEN {V(ev, "C10.params", D.id, ToString(f.params))} ELSE {})
     \cup (IF E.ctxfirst /\ (f.params = <<>> \/ f.params[1] # "ctx")
           THEN {V(ev, "C10.ctxfirst", D.id, ToString(f.params))} ELSE {})
     \cup (IF ~(nres >= 1 /\ f.results[1] = D.ret
                /\ (E.haserr => nres = 2 /\ f.results[2] = "error")
                /\ (~E.haserr => nres = 1))
           THEN {V(ev, "C10.results", D.id, ToString(f.results))} ELSE {})

RunViol(ev) ==
  LET Ds == {DeclOf(ev.decls[i]) : i \in DOMAIN ev.decls}
      bad == {D \in Ds : ~Accepts(D)}
      named == Range(ev.named)
  IN IF bad # {}
     THEN (IF ev.exit = 0 THEN {V(ev, "C09.refuse", D.id, "unsatisfiable declaration accepted") : D \in bad} ELSE {})
          \cup (IF ev.out \in {"created", "changed"} THEN {V(ev, "C09.output", D.id, ev.out) : D \in bad} ELSE {})
          \cup (IF ev.exit # 0 /\ \A D \in bad : Involved(D) \cap named = {}
                THEN {V(ev, "C09.diag", D.id, "diagnostic names none of the types involved") : D \in bad} ELSE {})
     ELSE (IF ev.exit # 0 THEN {V(ev, "C09.accept", D.id, "satisfiable declaration refused") : D \in Ds}
           ELSE (IF Len(ev.funcs) # Len(ev.decls)
                 THEN {V(ev, "C09.count", "", ToString(Len(ev.funcs)))} ELSE {})
                \cup UNION {LET fs == {i \in DOMAIN ev.funcs : ev.funcs[i].name = D.injector}
                            IN IF Cardinality(fs) # 1 THEN {V(ev, "C10.name", D.id, "no function with the declared name, or several")}
                               ELSE SigViol(ev, D, ev.funcs[CHOOSE i \in fs : TRUE])
                            : D \in Ds})

Ev == Trace[l]

Run ==
  /\ l <= Len(Trace) /\ Ev.ev = "Run"
  /\ l' = l + 1
  /\ viol' = viol \cup RunViol(Ev)
               \cup (IF Ev.exit = 0 /\ Ev.src \in DOMAIN gen /\ gen[Ev.src] # Ev.outhash
                     THEN {V(Ev, "C11.functional", "", Ev.src)} ELSE {})
  /\ gen' = IF Ev.exit = 0 /\ Ev.src \notin DOMAIN gen THEN gen @@ (Ev.src :> Ev.outhash) ELSE gen
  /\ UNCHANGED done

(* a run whose declarations are outside the Decl universe (golden inputs, examples): only the functional part *)
Opaque ==
  /\ l <= Len(Trace) /\ Ev.ev = "Opaque"
  /\ l' = l + 1
  /\ viol' = viol
               \cup (IF Ev.exit = 0 /\ Ev.src \in DOMAIN gen /\ gen[Ev.src] # Ev.outhash
                     THEN {V(Ev, "C11.functional", "", Ev.src)} ELSE {})
               \cup (IF Ev.exit # 0 THEN {V(Ev, "C11.failed", "", Ev.src)} ELSE {})
               \cup (IF Ev.expect # "" /\ Ev.exit = 0 /\ Ev.outhash # Ev.expect THEN {V(Ev, "C11.example", "", Ev.src)} ELSE {})
  /\ gen' = IF Ev.exit = 0 /\ Ev.src \notin DOMAIN gen THEN gen @@ (Ev.src :> Ev.outhash) ELSE gen
  /\ UNCHANGED done

Finish ==
  /\ l > Len(Trace) /\ ~done
  /\ done' = TRUE
  /\ JsonSerialize("viol.json", [viol |-> viol, lines |-> l - 1, inputs |-> Cardinality(DOMAIN gen)])
  /\ UNCHANGED <<l, gen, viol>>

Init == l = 1 /\ gen = <<>> /\ viol = {} /\ done = FALSE
Next == Run \/ Opaque \/ Finish
Spec == Init /\ [][Next]_vars
TraceAccepted == TLCGet("stats").diameter = Len(Trace) + 2
=============================================================================================================
