---------------------------------------------- MODULE NamesTrace ----------------------------------------------
(* Identifiers of REAL generated files replayed as Declare actions of Names.tla (C12 end to end, naming part of   *)
(* C04).  harness/cmd/scopes reads a user package with its generated *_band.go files and emits, per generated    *)
(* file, File(pkglevel) followed by one Declare(space, kind, name) per import alias (space = the file) and per     *)
(* identifier declared in each generated function (space = file:function): parameters, var block, done-channels, *)
(* error variables and := at the top level of the function or of a goroutine body.  Identifiers declared in       *)
(* nested blocks (var zero, range variable ch, if err := ...) legitimately shadow and are only checked against    *)
(* keywords and predeclared names.                                                                                *)
EXTENDS Names, Naturals, Json

Trace == ndJsonDeserialize("names.ndjson")

VARIABLES l, taken, aliases, declared, viol, done
vars == <<l, taken, aliases, declared, viol, done>>

Ev == Trace[l]
Range(s) == {s[i] : i \in DOMAIN s}

File ==
  /\ l <= Len(Trace) /\ Ev.ev = "File"
  /\ l' = l + 1
  /\ taken' = Range(Ev.pkglevel)
  /\ aliases' = {}
  /\ declared' = <<>>
  /\ UNCHANGED <<viol, done>>

Why(e) ==
  IF e.name \in Reserved THEN "keyword-or-predeclared"
  ELSE IF e.kind = "nested" THEN ""
  ELSE IF e.name \in taken THEN "declared-at-package-level"
  ELSE IF e.kind # "import" /\ e.name \in aliases THEN "equals-an-import-alias"
  ELSE IF e.kind = "import" /\ e.name \in aliases THEN "alias-used-twice"
  ELSE IF e.space \in DOMAIN declared /\ e.name \in declared[e.space] THEN "declared-twice-in-one-function"
  ELSE ""

Declare ==
  /\ l <= Len(Trace) /\ Ev.ev = "Declare"
  /\ l' = l + 1
  /\ LET w == Why(Ev)
     IN viol' = IF w = "" THEN viol
                ELSE viol \cup {[case |-> Ev.case, file |-> Ev.file, func |-> Ev.func, name |-> Ev.name, kind |-> Ev.kind, why |-> w]}
  /\ aliases' = IF Ev.kind = "import" THEN aliases \cup {Ev.name} ELSE aliases
  /\ declared' = IF Ev.kind \in {"import", "nested"} THEN declared ELSE DeclareIn(declared, Ev.space, Ev.name)
  /\ UNCHANGED <<taken, done>>

Func ==
  /\ l <= Len(Trace) /\ Ev.ev = "Func"
  /\ l' = l + 1
  /\ UNCHANGED <<taken, aliases, declared, viol, done>>

Finish ==
  /\ l > Len(Trace) /\ ~done
  /\ done' = TRUE
  /\ JsonSerialize("viol.json", [viol |-> viol, lines |-> l - 1])
  /\ UNCHANGED <<l, taken, aliases, declared, viol>>

Init == l = 1 /\ taken = {} /\ aliases = {} /\ declared = <<>> /\ viol = {} /\ done = FALSE
Next == File \/ Declare \/ Func \/ Finish
Spec == Init /\ [][Next]_vars
TraceAccepted == TLCGet("stats").diameter = Len(Trace) + 2
=============================================================================================================
