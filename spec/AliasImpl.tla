------------------------------------------------ MODULE AliasImpl ------------------------------------------------
(* The import-alias allocator of `kessoku migrate` (internal/migrate/typeconv.go, TypeConverter.AddImport) as it  *)
(* is implemented: a path keeps the name it got first; a desired name already used by another path is replaced   *)
(* by base_1, base_2, ... (first unused).  Requirement (C14: "consistent aliases when different packages share a  *)
(* name across merged files"): the relation path <-> local name is a bijection at all times, and every request     *)
(* returns the name registered for its path.  TLC explores every request history up to MaxLen over the            *)
(* adversarial requests below and dumps the histories; they are replayed into the real TypeConverter.             *)
EXTENDS Naturals, Sequences, FiniteSets, TLC, Json

CONSTANTS Requests, MaxLen     \* Requests: set of <<path, desired name>>

VARIABLES imports,   \* path |-> name
          used,      \* name |-> path
          counter,   \* base name |-> last suffix tried
          hist       \* <<path, desired, result>>*

vars == <<imports, used, counter, hist>>

Cnt(b) == IF b \in DOMAIN counter THEN counter[b] ELSE 0
Put(f, k, v) == IF k \in DOMAIN f THEN [f EXCEPT ![k] = v] ELSE f @@ (k :> v)

RECURSIVE FirstFree(_, _)
FirstFree(base, n) == LET name == base \o "_" \o ToString(n)
                      IN IF name \in DOMAIN used THEN FirstFree(base, n + 1) ELSE n

AddImport(path, desired) ==
  IF path \in DOMAIN imports
  THEN /\ hist' = Append(hist, <<path, desired, imports[path]>>)
       /\ UNCHANGED <<imports, used, counter>>
  ELSE IF desired \in DOMAIN used /\ used[desired] # path
       THEN LET n == FirstFree(desired, Cnt(desired) + 1)
                name == desired \o "_" \o ToString(n)
            IN /\ counter' = Put(counter, desired, n)
               /\ imports' = Put(imports, path, name)
               /\ used' = Put(used, name, path)
               /\ hist' = Append(hist, <<path, desired, name>>)
       ELSE /\ imports' = Put(imports, path, desired)
            /\ used' = Put(used, desired, path)
            /\ hist' = Append(hist, <<path, desired, desired>>)
            /\ UNCHANGED counter

Init == imports = <<>> /\ used = <<>> /\ counter = <<>> /\ hist = <<>>
Next == Len(hist) < MaxLen /\ \E r \in Requests : AddImport(r[1], r[2])
Spec == Init /\ [][Next]_vars

(* requirement *)
Bijective ==
  /\ \A p, q \in DOMAIN imports : imports[p] = imports[q] => p = q
  /\ \A i \in DOMAIN hist : \A j \in DOMAIN hist :
        (hist[i][1] = hist[j][1]) <=> (hist[i][3] = hist[j][3])

Dump == IF Len(hist) = MaxLen THEN TLCSet(2, TLCGet(2) \cup {hist}) ELSE TRUE
ASSUME TLCSet(2, {})
Post == JsonSerialize("alias_histories.json", [histories |-> TLCGet(2)])
=============================================================================================================
