SPECIFICATION Spec
CONSTANT Files <- Files4
INVARIANT DestAtomic
INVARIANT FailClean
INVARIANT RerunCompletes
CHECK_DEADLOCK FALSE
