SPECIFICATION Spec
CONSTANT Files <- Files3
CONSTANT Priors <- PriorsMC
INVARIANT DestAtomic
INVARIANT FailClean
INVARIANT RerunCompletes
CHECK_DEADLOCK FALSE
