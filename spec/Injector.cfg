SPECIFICATION Spec
INVARIANT Collect
POSTCONDITION Post
CHECK_DEADLOCK FALSE
