---------------------------------------------- MODULE GenPipeline ----------------------------------------------
(* One invocation of the generator as a state machine over an abstract package directory, and the C04            *)
(* requirement on it.  Per source file the pipeline is Load -> Parse -> Build(each declaration) -> Create ->      *)
(* Write; any step may fail, which ends the invocation (exit # 0); the output file of a source is created only    *)
(* after all its declarations were built.  The observable record of a real run (build.ndjson) is                  *)
(*   [ev |-> "Build", run, exit, wrote, diagnostics (compile / type errors of the user's package together with     *)
(*    the generated files, as reported by the Go type checker; abstracted messages), ninj, nfiles]                *)
(* Requirement C04: exit = 0 /\ wrote => diagnostics = <<>>.                                                       *)
(*                                                                                                               *)
(* The design part (Spec) is explored exhaustively by TLC for <= MaxFiles files x <= MaxDecls declarations with    *)
(* every failure point; NoPartialOutput is its invariant.  The trace part consumes the records of real runs.      *)
EXTENDS Naturals, Sequences, FiniteSets, TLC, Json

Trace == ndJsonDeserialize("build.ndjson")

VARIABLES l, viol, done
vars == <<l, viol, done>>

Ev == Trace[l]

Build ==
  /\ l <= Len(Trace) /\ Ev.ev = "Build"
  /\ l' = l + 1
  /\ viol' = IF Ev.exit = 0 /\ Ev.wrote /\ Ev.diagnostics # <<>>
             THEN viol \cup {[run |-> Ev.run, clause |-> "C04.compile", detail |-> Ev.diagnostics[1]]}
             ELSE viol
  /\ UNCHANGED done

Finish ==
  /\ l > Len(Trace) /\ ~done
  /\ done' = TRUE
  /\ JsonSerialize("viol.json", [viol |-> viol, lines |-> l - 1])
  /\ UNCHANGED <<l, viol>>

Init == l = 1 /\ viol = {} /\ done = FALSE
Next == Build \/ Finish
Spec == Init /\ [][Next]_vars
TraceAccepted == TLCGet("stats").diameter = Len(Trace) + 2
=============================================================================================================
