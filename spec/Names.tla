------------------------------------------------- MODULE Names -------------------------------------------------
(* Requirement on generated identifiers (C12; naming part of C04).                                               *)
(*                                                                                                               *)
(* A name space is the set of identifiers that are visible together: for a generated file, the import aliases    *)
(* of the file plus everything declared in ONE generated function (parameters, var block, done-channels, error   *)
(* variables, := in goroutine bodies).  taken = names a fresh identifier must avoid: Go keywords, predeclared     *)
(* identifiers and what the user's package declares at package level.  The only action is                        *)
(*     Declare(space, name)                                                                                      *)
(* and the only requirement is that it is enabled: the name is not taken and not declared in that space before.  *)
(* No naming scheme is prescribed.                                                                               *)
EXTENDS Sequences, FiniteSets, TLC

Keywords == {"break", "default", "func", "interface", "select", "case", "defer", "go", "map", "struct", "chan",
             "else", "goto", "package", "switch", "const", "fallthrough", "if", "range", "type", "continue", "for",
             "import", "return", "var"}
Predeclared == {"any", "bool", "byte", "comparable", "complex64", "complex128", "error", "float32", "float64",
                "int", "int8", "int16", "int32", "int64", "rune", "string", "uint", "uint8", "uint16", "uint32",
                "uint64", "uintptr", "true", "false", "iota", "nil", "append", "cap", "clear", "close", "complex",
                "copy", "delete", "imag", "len", "make", "max", "min", "new", "panic", "print", "println", "real",
                "recover"}
Reserved == Keywords \cup Predeclared

(* declared: function from name space to the set of names declared in it *)
CanDeclare(taken, declared, space, name) ==
  /\ name \notin Reserved
  /\ name \notin taken
  /\ (space \in DOMAIN declared => name \notin declared[space])

DeclareIn(declared, space, name) ==
  IF space \in DOMAIN declared THEN [declared EXCEPT ![space] = @ \cup {name}]
  ELSE declared @@ (space :> {name})
=============================================================================================================
