------------------------------------------------ MODULE Planner ------------------------------------------------
(* The scheduler of the generator (internal/kessoku/graph.go: NewGraph, topologicalSortIter, findOptimalPool,    *)
(* Graph.Build, buildStmts) as it is implemented today, as a function from a declaration to a PROGRAM in the     *)
(* instruction set of Injector.tla.  Implementation-shaped on purpose (DESIGN.md 1.1): it is used                *)
(*  (a) to explore the DESIGN exhaustively — every DAG up to N providers x every Async subset is planned here    *)
(*      and the resulting program is model-checked with Injector.tla without building any Go code, and           *)
(*  (b) as a conformance reference: the plan computed here is compared with the program extracted from the       *)
(*      file the real generator wrote (thread structure, call order, waits).  A difference means the generator   *)
(*      left the modelled design ("outside the design envelope", informational), never a violation.              *)
(*                                                                                                              *)
(* Domain: every accepted declaration of Decl.tla whose requested type is supplied: functions and injected values *)
(* with any number of results (Bind aliases allowed) and struct expansions.  At graph level the generator treats  *)
(* them alike - one node per provider, one node per expanded field (a synchronous provider that requires the      *)
(* struct); they differ only in the statements: one variable and one done-channel per RESULT, waits on the        *)
(* channel of the result that is consumed, one close statement for all channels of a call, and a field read       *)
(* `dst = src.F` that never waits (findOptimalPool always puts it into the pool of the struct's producer).        *)
EXTENDS Decl

(* ---- the dependency graph as NewGraph builds it (breadth-first from the requested type) ---- *)
ArgNode(t) == "arg:" \o t
NodeOfType(D, t) == IF Supplied(D, t) THEN Sup(D, t)[1] ELSE ArgNode(t)

(* dependencies of a provider node in parameter order (duplicates kept) *)
DepsOf(D, n, argset) == IF n \in argset THEN <<>> ELSE [i \in DOMAIN Prov(D, n).requires |-> NodeOfType(D, Prov(D, n).requires[i])]

RECURSIVE Bfs(_, _, _, _)
\* queue: nodes to process; nodes: discovery order so far; done: processed set
Bfs(D, queue, nodes, done) ==
  IF queue = <<>> THEN nodes
  ELSE LET n == Head(queue)
           args == {ArgNode(t) : t \in AllTypes(D)}
       IN IF n \in done \/ n \in args THEN Bfs(D, Tail(queue), nodes, done \cup {n})
          ELSE LET ds == DepsOf(D, n, args)
               IN LET RECURSIVE AddNew(_, _, _)
                      \* new nodes in parameter order, first occurrence only
                      AddNew(i, ns, q) == IF i > Len(ds) THEN <<ns, q>>
                                          ELSE IF \E j \in DOMAIN ns : ns[j] = ds[i] THEN AddNew(i + 1, ns, q)
                                          ELSE AddNew(i + 1, Append(ns, ds[i]), Append(q, ds[i]))
                      r == AddNew(1, nodes, Tail(queue))
                  IN Bfs(D, r[2], r[1], done \cup {n})

GraphNodes(D) == LET root == Sup(D, D.ret)[1] IN Bfs(D, <<root>>, <<root>>, {})

ArgSet(D) == {ArgNode(t) : t \in AllTypes(D)}
IsArgNode(D, n) == n \in ArgSet(D)
NodeAsync(D, n) == ~IsArgNode(D, n) /\ Prov(D, n).async

(* position of a node in the discovery order *)
Pos(seq, x) == CHOOSE i \in DOMAIN seq : seq[i] = x

(* edges[n]: dependents of n as <<dependent, parameter index>>, in the order NewGraph appends them: dependents are  *)
(* processed in discovery order, their parameters left to right                                                   *)
EdgesOf(D, nodes, n) ==
  LET RECURSIVE Walk(_, _)
      Walk(i, acc) ==
        IF i > Len(nodes) THEN acc
        ELSE LET m == nodes[i]
                 ds == DepsOf(D, m, ArgSet(D))
                 RECURSIVE Par(_, _)
                 Par(k, a) == IF k > Len(ds) THEN a ELSE Par(k + 1, IF ds[k] = n THEN Append(a, <<m, k>>) ELSE a)
             IN Walk(i + 1, Par(1, acc))
  IN Walk(1, <<>>)

(* ---- topologicalSortIter: Kahn with a FIFO queue seeded in discovery order; one decrement per parameter ---- *)
TopoOrder(D) ==
  LET nodes == GraphNodes(D)
      deps(n) == DepsOf(D, n, ArgSet(D))
      init == SelectSeq(nodes, LAMBDA n : Len(deps(n)) = 0)
      RECURSIVE Run(_, _, _, _)
      \* queue, emitted order, visited set, remaining counts
      Run(q, out, vis, cnt) ==
        IF q = <<>> THEN out
        ELSE LET n == Head(q)
             IN IF n \in vis THEN Run(Tail(q), out, vis, cnt)
                ELSE LET es == EdgesOf(D, nodes, n)
                         RECURSIVE Dec(_, _, _)
                         Dec(i, c, qq) ==
                           IF i > Len(es) THEN <<c, qq>>
                           ELSE LET m == es[i][1]
                                    c2 == [c EXCEPT ![m] = @ - 1]
                                IN Dec(i + 1, c2, IF c2[m] = 0 THEN Append(qq, m) ELSE qq)
                         r == Dec(1, cnt, Tail(q))
                     IN Run(r[2], Append(out, n), vis \cup {n}, r[1])
  IN Run(init, <<>>, {}, [n \in Range(nodes) |-> Len(deps(n))])

(* ---- size of the pool array: |nodes| - maximum matching of the (direct) dependency edges ---- *)
DirectEdges(D) ==
  LET nodes == Range(GraphNodes(D))
  IN {e \in nodes \X nodes : \E k \in DOMAIN DepsOf(D, e[2], ArgSet(D)) : DepsOf(D, e[2], ArgSet(D))[k] = e[1]}

(* size of a maximum matching (every edge is either left out, or taken together with a maximum matching of the   *)
(* edges it does not touch); the generator computes the same number with augmenting paths                      *)
RECURSIVE MaxMatching(_)
MaxMatching(E) == IF E = {} THEN 0
                  ELSE LET e == CHOOSE x \in E : TRUE
                           with == 1 + MaxMatching({f \in E : f[1] # e[1] /\ f[2] # e[2]})
                           \* leaving e out can only help if another edge uses one of its end points
                           without == IF \E f \in E \ {e} : f[1] = e[1] \/ f[2] = e[2] THEN MaxMatching(E \ {e}) ELSE 0
                       IN IF with >= without THEN with ELSE without

NumPools(D) == Len(GraphNodes(D)) - MaxMatching(DirectEdges(D))

(* ---- findOptimalPool ---- *)
CountIn(seq, S) == Cardinality({i \in DOMAIN seq : seq[i] \in S})
SeqContains(seq, x) == \E i \in DOMAIN seq : seq[i] = x

\* pools: sequence of sequences of nodes; provided[i]: set of nodes available in pool i (arguments included)
FindPool(D, n, pools, provided) ==
  LET deps == DepsOf(D, n, ArgSet(D))
      async == NodeAsync(D, n)
      np == Len(pools)
      cand == {i \in 1..np : async \/ Len(pools[i]) > 0}
      cnt(i) == CountIn(deps, provided[i])
      best == IF cand = {} THEN 0 ELSE CHOOSE c \in {cnt(i) : i \in cand} : \A i \in cand : cnt(i) <= c
      maxPools == {i \in cand : cnt(i) = best}     \* visited in increasing index order
      \* backward scan of pool i: "take" if a dependency is met first, "skip" if an Async provider is met first, "end" otherwise
      Scan(i) == LET p == pools[i]
                     RECURSIVE Back(_)
                     Back(k) == IF k = 0 THEN "end"
                                ELSE IF SeqContains(deps, p[k]) THEN "take"
                                ELSE IF NodeAsync(D, p[k]) THEN "skip"
                                ELSE Back(k - 1)
                 IN Back(Len(p))
      RECURSIVE FullLoop(_)
      \* the loop over maxProvidedPools when every dependency is available: returns 0 when it falls through
      FullLoop(i) == IF i > np THEN 0
                     ELSE IF i \notin maxPools THEN FullLoop(i + 1)
                     ELSE IF ~async THEN i
                     ELSE IF Scan(i) = "take" THEN i
                     ELSE IF Scan(i) = "skip" THEN FullLoop(i + 1)
                     ELSE IF i = 1 THEN 1
                     ELSE FullLoop(i + 1)
      full == IF best = Len(deps) THEN FullLoop(1) ELSE 0
      empties == {i \in 1..np : Len(pools[i]) = 0}
      firstEmpty == IF empties = {} THEN 0 ELSE CHOOSE i \in empties : \A j \in empties : i <= j
      sized == {i \in maxPools : async \/ Len(pools[i]) > 0}
      smallest == IF sized = {} THEN 1
                  ELSE CHOOSE i \in sized : \A j \in sized : Len(pools[i]) < Len(pools[j]) \/ (Len(pools[i]) = Len(pools[j]) /\ i <= j)
  IN IF cand = {} THEN 1
     ELSE IF full # 0 THEN full
     ELSE IF async /\ firstEmpty # 0 THEN firstEmpty
     ELSE smallest

(* ---- first pass of Graph.Build: pool of every provider node ---- *)
Assign(D) ==
  LET topo == TopoOrder(D)
      np == NumPools(D)
      args == ArgSet(D) \cap Range(GraphNodes(D))
      RECURSIVE Go(_, _, _, _)
      Go(i, pools, provided, poolOf) ==
        IF i > Len(topo) THEN <<pools, poolOf>>
        ELSE LET n == topo[i]
             IN IF IsArgNode(D, n) THEN Go(i + 1, pools, provided, poolOf)
                ELSE LET k == FindPool(D, n, pools, provided)
                     IN Go(i + 1, [pools EXCEPT ![k] = Append(@, n)], [provided EXCEPT ![k] = @ \cup {n}], poolOf @@ (n :> k))
  IN Go(1, [i \in 1..np |-> <<>>], [i \in 1..np |-> args], <<>>)

(* ---- buildStmts: which pool is the injector's own goroutine, in which order pools are emitted ---- *)
Threads(D) ==
  LET a == Assign(D)
      pools == a[1]
      np == Len(pools)
      args == ArgSet(D)
      nonEmpty == {i \in 1..np : Len(pools[i]) > 0}
      ready(i, done) == \A k \in DOMAIN DepsOf(D, pools[i][1], args) : DepsOf(D, pools[i][1], args)[k] \in done
      initial == {i \in nonEmpty : ready(i, args)}
      syncInit == {i \in initial : ~NodeAsync(D, pools[i][1])}
      parent == IF syncInit # {} THEN CHOOSE i \in syncInit : \A j \in syncInit : i <= j
                ELSE CHOOSE i \in initial : \A j \in initial : i <= j
      SortedSeq(S) == LET RECURSIVE Srt(_, _)
                          Srt(T, acc) == IF T = {} THEN acc
                                         ELSE LET m == CHOOSE x \in T : \A y \in T : x <= y IN Srt(T \ {m}, Append(acc, m))
                      IN Srt(S, <<>>)
      chains0 == SortedSeq(initial \ {parent})
      done0 == args \cup UNION {Range(pools[i]) : i \in initial}
      RECURSIVE Rounds(_, _, _, _)
      \* visited pools, processed nodes, chain order, pools appended to the parent
      Rounds(vis, done, chains, mainExtra) ==
        LET RECURSIVE Sweep(_, _, _, _, _, _)
            Sweep(i, v, dn, ch, mx, progressed) ==
              IF i > np THEN <<v, dn, ch, mx, progressed>>
              ELSE IF i \in v \/ i \notin nonEmpty \/ ~ready(i, dn) THEN Sweep(i + 1, v, dn, ch, mx, progressed)
              ELSE IF NodeAsync(D, pools[i][1])
                   THEN Sweep(i + 1, v \cup {i}, dn \cup Range(pools[i]), Append(ch, i), mx, TRUE)
                   ELSE Sweep(i + 1, v \cup {i}, dn \cup Range(pools[i]), ch, Append(mx, i), TRUE)
            r == Sweep(1, vis, done, chains, mainExtra, FALSE)
        IN IF r[5] THEN Rounds(r[1], r[2], r[3], r[4]) ELSE <<r[3], r[4], r[1]>>
      fin == Rounds(initial, done0, chains0, <<>>)
      RECURSIVE Cat(_, _)
      Cat(idx, acc) == IF idx = <<>> THEN acc ELSE Cat(Tail(idx), acc \o pools[Head(idx)])
  IN [main |-> Cat(fin[2], pools[parent]),
      goroutines |-> [k \in DOMAIN fin[1] |-> pools[fin[1][k]]],
      poolOf |-> a[2],
      dropped |-> nonEmpty \ fin[3]]

(* the plan as the extractor sees a generated file: per thread, the providers called in order, each with the    *)
(* providers whose completion it waits for (dependencies living in another pool)                                 *)
WaitsOf(D, T, n) == {m \in Range(DepsOf(D, n, ArgSet(D))) : ~IsArgNode(D, m) /\ T.poolOf[m] # T.poolOf[n]}

PlanView(D) ==
  LET T == Threads(D)
      view(seq) == [i \in DOMAIN seq |-> <<seq[i], WaitsOf(D, T, seq[i])>>]
  IN [main |-> view(T.main), goroutines |-> [k \in DOMAIN T.goroutines |-> view(T.goroutines[k])]]

(* ---- the plan as a PROGRAM of Injector.tla (what generateStmts / InjectorProviderCallStmt.Stmt emit) ---- *)
VarOf(n, k) == "v_" \o n \o "_" \o ToString(k)
ChanOf(n, k) == "c_" \o n \o "_" \o ToString(k)

Instr(op, line) == [op |-> op, line |-> line, chans |-> <<>>, ctx |-> FALSE, onctx |-> "", rerr |-> "nil", rval |-> "none", p |-> "",
                    args |-> <<>>, rets |-> <<>>, fall |-> FALSE, errck |-> "", src |-> "", field |-> "", dst |-> "", chk |-> FALSE,
                    v |-> "", rline |-> 0]

PlanProg(D, idx) ==
  LET T == Threads(D)
      nodes == GraphNodes(D)
      argNodes == SelectSeq(nodes, LAMBDA n : IsArgNode(D, n))
      provNodes == SelectSeq(nodes, LAMBDA n : ~IsArgNode(D, n))
      needAsync == \E n \in Range(nodes) : NodeAsync(D, n)
      hasErr == \E n \in Range(nodes) : ~IsArgNode(D, n) /\ Prov(D, n).fallible
      hasGo == Len(T.goroutines) > 0
      \* context.Context is a parameter iff a needed provider is Async or the context itself is an unsupplied input
      ctxArg == ArgNode("ctx") \in Range(nodes)
      hasCtx == needAsync \/ ctxArg
      argVar(t) == IF t = "ctx" THEN "ctx" ELSE "a_" \o t
      \* the variable a required type is read from: result k of its supplier, or the injector's parameter
      srcVar(t) == IF Supplied(D, t) THEN VarOf(Sup(D, t)[1], Sup(D, t)[2]) ELSE argVar(t)
      \* result k of node n has a done-channel iff a dependent living in another pool consumes it (param.Ref(true))
      crossUse(m, t) == Supplied(D, t) /\ T.poolOf[Sup(D, t)[1]] # T.poolOf[m]
      withChan(n, k) == \E m \in Range(provNodes) : \E i \in DOMAIN Prov(D, m).requires :
                           LET t == Prov(D, m).requires[i] IN crossUse(m, t) /\ Sup(D, t) = <<n, k>>
      nres(n) == Len(Prov(D, n).provides)
      ThreadCode(seq, isMain, base) ==
        LET RECURSIVE Gen(_, _)
            Gen(i, acc) ==
              IF i > Len(seq) THEN acc
              ELSE LET n == seq[i]
                       P0 == Prov(D, n)
                       ln == base + 40 * i
                       reqs == P0.requires
                       \* one wait per awaited result, in parameter order, duplicates once
                       wseq == [k \in DOMAIN reqs |-> IF crossUse(n, reqs[k]) THEN ChanOf(Sup(D, reqs[k])[1], Sup(D, reqs[k])[2]) ELSE ""]
                       RECURSIVE Uniq(_, _)
                       Uniq(q, a) == IF q = <<>> THEN a
                                     ELSE Uniq(Tail(q), IF Head(q) = "" \/ \E k \in DOMAIN a : a[k] = Head(q) THEN a ELSE Append(a, Head(q)))
                       \* a field read never waits: the generator relies on it sharing the pool of the struct's producer
                       wu == IF hasGo /\ P0.kind # "field" THEN Uniq(wseq, <<>>) ELSE <<>>
                       selectForm == hasCtx /\ (~isMain \/ hasErr)
                       waits == [k \in DOMAIN wu |->
                                   [Instr("wait", ln + k) EXCEPT !.chans = <<wu[k]>>, !.ctx = selectForm,
                                                                  !.rerr = IF selectForm THEN "ctx" ELSE "nil",
                                                                  !.rval = IF isMain THEN "zero" ELSE "none",
                                                                  !.rline = ln + 15 + k]]
                       call == IF P0.kind = "field"
                               THEN [Instr("field", ln + 32) EXCEPT !.src = srcVar(reqs[1]), !.field = P0.field, !.dst = VarOf(n, 1)]
                               ELSE [Instr("call", ln + 32) EXCEPT !.p = n, !.args = [k \in DOMAIN reqs |-> srcVar(reqs[k])],
                                                              !.rets = [k \in 1..nres(n) |-> VarOf(n, k)], !.fall = P0.fallible,
                                                              !.errck = IF P0.fallible /\ (~isMain \/ hasErr) THEN "ret" ELSE "",
                                                              !.rerr = IF P0.fallible THEN "err" ELSE "nil",
                                                              !.rval = IF isMain THEN "zero" ELSE "none",
                                                              !.rline = ln + 33]
                       \* one close statement for all done-channels of the call, in result order
                       cch == SelectSeq([k \in 1..nres(n) |-> IF withChan(n, k) THEN ChanOf(n, k) ELSE ""], LAMBDA c : c # "")
                       cls == IF hasGo /\ cch # <<>> THEN <<[Instr("close", ln + 34) EXCEPT !.chans = cch]>> ELSE <<>>
                   IN Gen(i + 1, acc \o waits \o <<call>> \o cls)
        IN Gen(1, <<>>)
      retVar == srcVar(D.ret)
      mainCode == ThreadCode(T.main, TRUE, 1000)
                  \o (IF hasGo THEN <<[Instr("egwait", 1900) EXCEPT !.chk = hasErr, !.rerr = IF hasErr THEN "err" ELSE "nil",
                                                                     !.rval = "nil", !.rline = 1901]>> ELSE <<>>)
                  \o <<[Instr("ret", 1950) EXCEPT !.v = retVar, !.rline = 1950]>>
      goCode(k) == ThreadCode(T.goroutines[k], FALSE, 2000 * (k + 1)) \o <<Instr("gend", 2000 * (k + 1) + 990)>>
      ptype == [k \in DOMAIN argNodes |-> LET t == CHOOSE x \in AllTypes(D) : ArgNode(x) = argNodes[k] IN <<argVar(t), t>>]
              \o (IF needAsync /\ ~ctxArg THEN << <<"ctx", "ctx">> >> ELSE <<>>)
      RECURSIVE Flat(_, _, _)
      \* VarOf / ChanOf of every result of every provider node, in discovery order
      Flat(Op(_, _), i, acc) == IF i > Len(provNodes) THEN acc
                                ELSE Flat(Op, i + 1, acc \o [k \in 1..nres(provNodes[i]) |-> Op(provNodes[i], k)])
      vars == Flat(VarOf, 1, <<>>)
  IN [decl |-> D.id, declidx |-> idx, haserr |-> hasErr,
      ptype |-> ptype, vars |-> vars,
      chans |-> IF hasGo THEN Flat(ChanOf, 1, <<>>) ELSE <<>>,
      egform |-> IF ~hasGo THEN "" ELSE IF hasCtx THEN "withctx" ELSE "plain",
      threads |-> <<mainCode>> \o [k \in DOMAIN T.goroutines |-> goCode(k)],
      vzero |-> [v \in Range(vars) \cup {p[1] : p \in Range(ptype)} \cup {"_"} |-> "nil"],
      dropped |-> T.dropped]

=============================================================================================================
