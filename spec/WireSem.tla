------------------------------------------------ MODULE WireSem ------------------------------------------------
(* Denotation of a google/wire configuration in the subset `kessoku migrate` supports (C13).                     *)
(*                                                                                                               *)
(* A configuration C is [id, ret, args, haserr, forms, providers]; a provider is                                  *)
(*   [id, kind, requires, provides, fallible, stype, fields, allfields]   with kind                               *)
(*   "fn"      provider function (wire.Build / wire.NewSet element), provides[1] = result type + wire.Bind aliases *)
(*   "value"   wire.Value / wire.InterfaceValue                                                                   *)
(*   "struct"  wire.Struct(new(S), fields...): requires the listed fields, provides S and pointer-to-S               *)
(*   "field"   wire.FieldsOf(new( *S ), F): requires the pointer to S, provides the type of F                                     *)
(* Set nesting and set references are flattened: by wire's own semantics they do not matter.                      *)
(* WEval is the value wire's injector returns as a symbolic term; WCalls the provider functions it invokes with    *)
(* their argument terms; WErr the error class when provider f is made to fail.                                    *)
EXTENDS Naturals, Sequences, FiniteSets, TLC

Range(s) == {s[i] : i \in DOMAIN s}

PTypes(p) == UNION {Range(p.provides[k]) : k \in DOMAIN p.provides}
WSup(C, t) == {p \in Range(C.providers) : t \in PTypes(p)}
WSupplied(C, t) == WSup(C, t) # {}
WProv(C, t) == CHOOSE p \in WSup(C, t) : TRUE
WUnambiguous(C) == \A p \in Range(C.providers) : \A t \in PTypes(p) : Cardinality(WSup(C, t)) = 1

RECURSIVE WJoin(_)
WJoin(s) == IF s = <<>> THEN "" ELSE IF Len(s) = 1 THEN s[1] ELSE s[1] \o "," \o WJoin(Tail(s))

ZeroTerm(C, t) == IF C.forms[t] \in {"ptr", "iface", "fstruct"} THEN "nil" ELSE "zero"

RECURSIVE WEval(_, _)
WEval(C, t) ==
  IF ~WSupplied(C, t) THEN "arg:" \o t
  ELSE LET p == WProv(C, t)
       IN CASE p.kind = "fn" -> p.id \o "(" \o WJoin([i \in DOMAIN p.requires |-> WEval(C, p.requires[i])]) \o ")#0"
            [] p.kind = "value" -> p.id
            [] p.kind = "field" -> "fld(" \o WEval(C, p.requires[1]) \o "," \o p.fields[1] \o ")"
            [] p.kind = "struct" ->
                 p.stype \o "{" \o
                   WJoin([i \in DOMAIN p.allfields |->
                            IF \E j \in DOMAIN p.fields : p.fields[j] = p.allfields[i]
                            THEN WEval(C, p.requires[CHOOSE j \in DOMAIN p.fields : p.fields[j] = p.allfields[i]])
                            ELSE ZeroTerm(C, p.alltypes[i])]) \o "}"

RECURSIVE WNeededFrom(_, _)
WNeededFrom(C, S) ==
  LET S2 == S \cup UNION {{WProv(C, r).id : r \in {q \in Range(p.requires) : WSupplied(C, q)}} : p \in {x \in Range(C.providers) : x.id \in S}}
  IN IF S2 = S THEN S ELSE WNeededFrom(C, S2)
WNeeded(C) == IF WSupplied(C, C.ret) THEN WNeededFrom(C, {WProv(C, C.ret).id}) ELSE {}

(* the provider functions wire's injector invokes, with their argument terms *)
WCalls(C) == {<<p.id, [i \in DOMAIN p.requires |-> WEval(C, p.requires[i])]>> :
                p \in {x \in Range(C.providers) : x.kind = "fn" /\ x.id \in WNeeded(C)}}

(* injector arguments some invoked provider (or struct construction) uses *)
WUsedArgs(C) == {a \in Range(C.args) : \E p \in Range(C.providers) : p.id \in WNeeded(C) /\ a \in Range(p.requires)}
=============================================================================================================
