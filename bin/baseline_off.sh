#!/bin/bash
# The repository's own test suite with the verif guard OFF (no -tags verif).
. /verif/bin/env.sh
cd /repo && go test -vet=off -count=1 -timeout 25m ./... && (cd tools && go test -vet=off -count=1 ./... 2>/dev/null || true)
