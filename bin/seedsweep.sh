#!/bin/bash
# Run every quick check under several seeds on the unchanged tree; report anything that is not exit 0.
# usage: seedsweep.sh [tier] [seeds...]
tier=${1:-quick}; shift
seeds=${@:-2 3 4}
cd /verif
for s in $seeds; do
  for p in C01 C02 C03 C04 C05 C06 C07 C08 C09 C10 C11 C12 C13 C14 C15 C16; do
    out=/tmp/sweep-$tier-$s-$p.log
    VERIF_SEED=$s VERIF_EVIDENCE_DIR=/tmp/sweep-ev/$tier-$s bash /verif/bin/check $p $tier > $out 2>&1; e=$?
    echo "seed=$s $p exit=$e $(grep -c '^KNOWN-FINDING' $out) known $(tail -n 1 $out | sed 's/.*: //')"
    if [ $e != 0 ]; then grep -A2 '^VIOLATION\|^MACHINERY' $out | cut -c1-400 | head -12; fi
  done
done
