#!/bin/bash
# every thorough check once on the unchanged tree (timing + sanity); evidence goes to a scratch directory
cd /verif
for p in ${@:-C01 C02 C03 C04 C05 C06 C07 C08 C09 C10 C11 C12 C13 C14 C15 C16}; do
  out=/tmp/thorough-$p.log
  s=$(date +%s)
  VERIF_EVIDENCE_DIR=/tmp/thorough-ev bash /verif/bin/check $p thorough > $out 2>&1; e=$?
  echo "$p exit=$e $(( $(date +%s) - s ))s $(grep -c '^KNOWN-FINDING' $out) known :: $(tail -n 1 $out | sed 's/.*: //')"
  if [ $e != 0 ]; then grep -A2 '^VIOLATION\|^MACHINERY' $out | cut -c1-500 | head -14; fi
done
