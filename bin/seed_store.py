#!/usr/bin/env python3
"""seed_store.py <mutant dir under /tmp/mut> <check props comma separated>
Confirm the mutant in a scratch worktree, run the quick checks against it, and store it under /verif/seeded/<id>/."""
import os, sys, json, shutil, subprocess, re
src = sys.argv[1].rstrip('/')
props = sys.argv[2].split(',')
mid = os.path.basename(src)
if len(sys.argv) > 3:
    mid = sys.argv[3] + mid
dst = os.path.join('/verif/seeded', mid)
os.makedirs(dst, exist_ok=True)
patch = os.path.join(src, 'patch.rebased.diff') if os.path.exists(os.path.join(src, 'patch.rebased.diff')) else os.path.join(src, 'patch.diff')
shutil.copy(patch, os.path.join(dst, 'patch.diff'))
if patch.endswith('rebased.diff'):
    shutil.copy(os.path.join(src, 'patch.diff'), os.path.join(dst, 'patch.as-delivered.diff'))
demo = os.path.join(dst, 'demo')
shutil.rmtree(demo, ignore_errors=True)
os.makedirs(demo)
for fn in os.listdir(src):
    p = os.path.join(src, fn)
    if fn.startswith('patch') or fn == 'meta.json' or fn.endswith('.log'):
        continue
    if os.path.isdir(p):
        if os.path.getsize(p) < 10**7:
            shutil.copytree(p, os.path.join(demo, fn), ignore=shutil.ignore_patterns('kessoku', '*.test', 'bin*', 'go.sum'))
    elif os.path.getsize(p) < 2 * 10**6:
        shutil.copy(p, os.path.join(demo, fn))
meta = {}
try:
    meta = json.load(open(os.path.join(src, 'meta.json')))
except Exception:
    pass
c = subprocess.run(['bash', '/verif/bin/mutant.sh', 'confirm', src], capture_output=True, text=True)
confirmed = 'CONFIRMED ' in c.stdout and 'NOT-CONFIRMED' not in c.stdout
r = subprocess.run(['bash', '/verif/bin/mutant.sh', 'run', src] + props, capture_output=True, text=True)
det = {}
for m in re.finditer(r'^\S+ (C\d+) exit=(\d+)', r.stdout, re.M):
    det[m.group(1)] = int(m.group(2))
sigs = re.findall(r'signature: (.*)', r.stdout)
out = {
    'id': mid,
    'first_run_before_strengthening': os.environ.get('FIRST_RUN', ''),
    'property': meta.get('property', mid.split('-')[0]),
    'summary': meta.get('summary', ''),
    'needs_to_manifest': meta.get('needs', ''),
    'files_changed': meta.get('files', []),
    'author_verification': meta.get('verified', ''),
    'confirmed_by_me': {'command': 'bash /verif/bin/mutant.sh confirm <dir> (scratch worktree: apply patch, full suite, demo.sh; undo, demo.sh)',
                        'output': c.stdout.strip().splitlines()[-4:], 'confirmed': confirmed},
    'checks_run': {'command': 'bash /verif/bin/mutant.sh run <dir> %s (REPO=<scratch worktree with the patch> bash /verif/bin/check <prop> quick)' % ' '.join(props),
                   'exit_codes': det, 'signatures_reported': sigs[:8]},
    'detected_by': sorted(p for p, e in det.items() if e == 1),
    'rebased_onto_fix_commits': patch.endswith('rebased.diff'),
}
json.dump(out, open(os.path.join(dst, 'meta.json'), 'w'), indent=1)
print(mid, 'confirmed' if confirmed else 'NOT CONFIRMED', det)
