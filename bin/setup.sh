#!/bin/bash
# Build the framework from files on disk only (offline): harness tools, and warm the Go build cache (race runtime).
set -e
. /verif/bin/env.sh
cd /verif/harness && mkdir -p /verif/build && go build -o /verif/build/ ./cmd/...
cd /repo && go build -o /dev/null ./cmd/kessoku
go build -race -o /dev/null std 2>/dev/null || true
echo "setup ok: $(go version)"
