#!/bin/bash
# Build the framework from files on disk only (offline): harness tools, and the warm base Go build cache that every
# check process clones (std with -race, x/sync, the generator's dependencies, the harness run-time).
set -e
. /verif/bin/env.sh
# setup runs alone: this is the only place where the base cache may be dropped (checks never delete from it)
if [ -d "$GOCACHE" ] && [ "$(du -sk "$GOCACHE" | cut -f1)" -gt 8000000 ]; then go clean -cache; fi
rm -rf /tmp/verif-gocache-* 2>/dev/null || true
cd /verif/harness && mkdir -p /verif/build && go build -o /verif/build/ ./cmd/...
cd /repo && go build -o /dev/null ./cmd/kessoku
go build -race -o /dev/null std 2>/dev/null || true
VERIF_SHARED_GOCACHE=1 python3 /verif/lib/warm.py
echo "setup ok: $(go version)"
