#!/bin/bash
# Build the framework from files on disk only (offline).
set -e
. /verif/bin/env.sh
cd /verif
echo "setup: go $(go version)"
exit 0
