#!/bin/bash
# mutant.sh confirm <mutdir>        : in a scratch worktree: suite passes with the patch, demo fails with it and passes without
# mutant.sh run <mutdir> <prop...>  : apply the patch to a scratch worktree of /repo (REPO=<worktree>), run the quick checks
#                                     of the given properties against it, remove the worktree.  (Same as applying to /repo and
#                                     undoing, but leaves /repo untouched so that several can run at once.)
. /verif/bin/env.sh
cmd=$1; dir=$2; shift 2
patch=$dir/patch.diff; [ -f $dir/patch.rebased.diff ] && patch=$dir/patch.rebased.diff
tag=$(basename $dir)-$$
case $cmd in
confirm)
  wt=/tmp/wt-confirm-$tag
  git -C /repo worktree add -q --detach $wt HEAD || exit 2
  trap "git -C /repo worktree remove --force $wt" EXIT
  (cd $wt && git apply $patch) || { echo "PATCH DOES NOT APPLY"; exit 2; }
  (cd $wt && go build ./... && go test -vet=off -count=1 ./... > /tmp/confirm-suite-$tag.log 2>&1); s=$?
  echo "suite with patch: exit $s"
  (cd $dir && timeout 900 bash demo.sh $wt > /tmp/confirm-demo-mut-$tag.log 2>&1); m=$?
  echo "demo with patch: exit $m"
  (cd $wt && git checkout -q -- . && git clean -fdq)
  (cd $dir && timeout 900 bash demo.sh $wt > /tmp/confirm-demo-clean-$tag.log 2>&1); c=$?
  echo "demo without patch: exit $c"
  if [ $s = 0 ] && [ $m != 0 ] && [ $c = 0 ]; then echo "CONFIRMED $dir"; exit 0; else echo "NOT-CONFIRMED $dir"; exit 1; fi ;;
run)
  wt=/tmp/wt-run-$tag
  git -C /repo worktree add -q --detach $wt HEAD || exit 2
  trap "git -C /repo worktree remove --force $wt" EXIT
  (cd $wt && git apply $patch) || { echo "PATCH DOES NOT APPLY"; exit 2; }
  for p in "$@"; do
    REPO=$wt VERIF_EVIDENCE_DIR=/tmp/mut-evidence/$tag bash /verif/bin/check $p ${TIER:-quick} > /tmp/mutrun-$tag-$p.log 2>&1; e=$?
    echo "$(basename $dir) $p exit=$e"
    grep -A1 '^VIOLATION\|MACHINERY' /tmp/mutrun-$tag-$p.log | grep -v '^--' | cut -c1-220 | head -8
  done ;;
esac
