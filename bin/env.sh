# Sourced by every script under /verif. Offline Go toolchain for mazrean/kessoku (go1.25.5 from the module cache).
export VERIF_ROOT=/verif
export REPO=${REPO:-/repo}
_TC=/root/go/pkg/mod/golang.org/toolchain@v0.0.1-go1.25.5.linux-amd64/bin
if [ -x "$_TC/go" ]; then export PATH="$_TC:$PATH"; fi
export GOTOOLCHAIN=local GOPROXY=off GONOSUMDB='*' GONOSUMCHECK=1 GOFLAGS=
export CARGO_NET_OFFLINE=true PIP_NO_INDEX=1
export VERIF_CACHE=${VERIF_CACHE:-/root/.cache/kessoku-verif}
mkdir -p "$VERIF_CACHE"
# scratch packages are unique, so the Go build cache only grows: a dedicated cache that lib/pipeline.py trims
export GOCACHE="$VERIF_CACHE/gocache"
