#!/bin/bash
# all 16 quick checks on the unchanged tree, 4 at a time; prints one line per check
cd /verif
run() { p=$1; s=$(date +%s); bash /verif/bin/check $p quick > /tmp/allq-$p.log 2>&1; e=$?; echo "$p exit=$e $(( $(date +%s) - s ))s $(grep -c '^KNOWN-FINDING' /tmp/allq-$p.log) known"; if [ $e != 0 ]; then grep -A2 '^VIOLATION\|^MACHINERY' /tmp/allq-$p.log | cut -c1-400 | head -8; fi; }
export -f run
printf '%s\n' C01 C02 C03 C04 C05 C06 C07 C08 C09 C10 C11 C12 C13 C14 C15 C16 | xargs -P ${PAR:-4} -I{} bash -c 'run {}'
