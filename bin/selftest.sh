#!/bin/bash
# binding demonstrations (DESIGN.md 6): every spec-code binding must reject a corrupted observation; decides nothing about /repo
. /verif/bin/env.sh
cd /verif && exec python3 /verif/lib/selftest.py
